module verifharness

go 1.23

require pgregory.net/rapid v1.3.0
