// Package stats collects, per shard, what a property run actually covered.
package stats

import (
	"encoding/json"
	"hash/fnv"
	"os"
	"sort"
	"sync"
)

type KnownResult struct {
	Key        string `json:"key"`
	Status     string `json:"status"` // open | fixed
	Witness    string `json:"witness"`
	Reproduces bool   `json:"reproduces"`
	Violation  string `json:"violation,omitempty"`
	What       string `json:"what,omitempty"`
}

type Shard struct {
	Property        string           `json:"property"`
	Shard           int              `json:"shard"`
	Seed            uint64           `json:"seed"`
	Requested       int              `json:"requested"`
	Evaluations     int              `json:"evaluations"`
	NonTrivial      []uint64         `json:"nontrivial_hashes"`
	Classes         map[string]int   `json:"classes"`
	Extra           map[string]int64 `json:"extra"`
	Excluded        map[string]int   `json:"excluded_by_known_finding"`
	Inconclusive    int              `json:"inconclusive"`
	BudgetExhausted bool             `json:"budget_exhausted"`
	Samples         []any            `json:"samples"`
	Failed          bool             `json:"failed"`
	Failure         string           `json:"failure,omitempty"`
	Replay          string           `json:"replay,omitempty"`
	Known           []KnownResult    `json:"known,omitempty"`
	HarnessError    string           `json:"harness_error,omitempty"`
}

type Recorder struct {
	mu   sync.Mutex
	s    Shard
	seen map[uint64]bool
	path string
}

func New(prop string, shard int, seed uint64, requested int, path string) *Recorder {
	return &Recorder{s: Shard{Property: prop, Shard: shard, Seed: seed, Requested: requested,
		Classes: map[string]int{}, Extra: map[string]int64{}, Excluded: map[string]int{}},
		seen: map[uint64]bool{}, path: path}
}

func Hash(s string) uint64 {
	h := fnv.New64a()
	_, _ = h.Write([]byte(s))
	return h.Sum64()
}

func (r *Recorder) Eval() { r.mu.Lock(); r.s.Evaluations++; r.mu.Unlock() }

func (r *Recorder) Label(labels ...string) {
	r.mu.Lock()
	for _, l := range labels {
		r.s.Classes[l]++
	}
	r.mu.Unlock()
}

func (r *Recorder) Add(name string, n int64) { r.mu.Lock(); r.s.Extra[name] += n; r.mu.Unlock() }

func (r *Recorder) Exclude(key string) { r.mu.Lock(); r.s.Excluded[key]++; r.mu.Unlock() }

func (r *Recorder) Inconclusive() { r.mu.Lock(); r.s.Inconclusive++; r.mu.Unlock() }

func (r *Recorder) BudgetExhausted() { r.mu.Lock(); r.s.BudgetExhausted = true; r.mu.Unlock() }

// NonTrivial records a distinct non-trivial case by its canonical key; sample is kept for the
// first few distinct ones.
func (r *Recorder) NonTrivial(key string, sample func() any) {
	h := Hash(key)
	r.mu.Lock()
	defer r.mu.Unlock()
	if r.seen[h] {
		return
	}
	r.seen[h] = true
	r.s.NonTrivial = append(r.s.NonTrivial, h)
	n := len(r.s.NonTrivial)
	// keep a spread of samples: the 1st, 10th, 100th, ... plus the first three
	if n <= 3 || n == 10 || n == 100 || n == 1000 || n == 10000 {
		if len(r.s.Samples) < 8 {
			r.s.Samples = append(r.s.Samples, sample())
		}
	}
}

func (r *Recorder) Fail(msg, replay string) {
	r.mu.Lock()
	r.s.Failed = true
	r.s.Failure = msg
	r.s.Replay = replay
	r.mu.Unlock()
}

func (r *Recorder) HarnessError(msg string) { r.mu.Lock(); r.s.HarnessError = msg; r.mu.Unlock() }

func (r *Recorder) Known(k KnownResult) { r.mu.Lock(); r.s.Known = append(r.s.Known, k); r.mu.Unlock() }

func (r *Recorder) Flush() {
	r.mu.Lock()
	defer r.mu.Unlock()
	if r.path == "" {
		return
	}
	sort.Slice(r.s.NonTrivial, func(i, j int) bool { return r.s.NonTrivial[i] < r.s.NonTrivial[j] })
	b, _ := json.Marshal(r.s)
	_ = os.WriteFile(r.path, b, 0o644)
}

func Load(path string) (*Shard, error) {
	b, err := os.ReadFile(path)
	if err != nil {
		return nil, err
	}
	var s Shard
	if err := json.Unmarshal(b, &s); err != nil {
		return nil, err
	}
	return &s, nil
}
