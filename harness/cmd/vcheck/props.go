package main

var baseAssumptions = []string{
	"the CLI binary built from /repo's working tree is what users run (black-box at process level)",
	"Go's regexp and regexp/syntax are correct as membership engine and parser",
	"rapid's generators and shrinker; every random choice is drawn through rapid from -rapid.seed derived from VERIF_SEED",
}

var props = map[string]propCfg{
	"C01": {Quick: 4000, Thorough: 120000, QuickSec: 60, ThoroughSec: 900,
		Rule: "rapid-generated regex-assembly programs (entries from an RE2∩PCRE grammar, markers, store/load, nested assemble and cmdline blocks, prefix/suffix, i/s flags, definitions, include files) compiled by the CLI and compared with the plain-reading reference by exact language equivalence (product determinisation); non-trivial = ≥2 entries and at least one of marker/nested block/load/prefix/suffix/flag/cmdline/include/definition reference, decided Equal exactly (not by cap); distinct = canonical text of program+files",
		Assumptions: baseAssumptions},
	"C02": {Quick: 6000, Thorough: 150000, QuickSec: 60, ThoroughSec: 600,
		Rule: "C01's program generator re-weighted so that half of all atoms come from the quoting/escaping stress set (quotes, backslashes, \\x5c, \\x22, raw and escaped control / non-ASCII runes, \\s classes, ^ $ . next to group boundaries), all flag spellings; pure predicates on stdout of every compiling program; non-trivial = the source contains at least one stress atom; distinct = canonical program text",
		Assumptions: baseAssumptions},
	"C19": {Quick: 30000, Thorough: 400000, QuickSec: 60, ThoroughSec: 600,
		Rule: "structure-aware fuzzing: 80% valid generated programs (with includes, definitions, blocks, layout noise) whose entries get hostile atoms spliced in (escaped parentheses followed by flag-like text, unbalanced groups, broken escapes, raw control/invalid UTF-8 bytes, brace fragments), 20% raw token soup over directive fragments; on stdin and in include files; oracle: terminates (10 s, re-run twice at 30 s), exit 0/1 or deliberate-panic exit 2, no Go runtime fault text on stderr; non-trivial = reached the clean-up passes (exit 0 with output) or contains a hostile token; distinct = stdin+files",
		Assumptions: baseAssumptions},
}
