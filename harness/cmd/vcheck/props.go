package main

var baseAssumptions = []string{
	"the CLI binary built from /repo's working tree is what users run (black-box at process level)",
	"Go's regexp and regexp/syntax are correct as membership engine and parser",
	"rapid's generators and shrinker; every random choice is drawn through rapid from -rapid.seed derived from VERIF_SEED",
}

var props = map[string]propCfg{
	"C01": {Quick: 4000, Thorough: 120000, QuickSec: 60, ThoroughSec: 900,
		Rule: "rapid-generated regex-assembly programs (entries from an RE2∩PCRE grammar, markers, store/load, nested assemble and cmdline blocks, prefix/suffix, i/s flags, definitions, include files) compiled by the CLI and compared with the plain-reading reference by exact language equivalence (product determinisation); non-trivial = ≥2 entries and at least one of marker/nested block/load/prefix/suffix/flag/cmdline/include/definition reference, decided Equal exactly (not by cap); distinct = canonical text of program+files",
		Assumptions: baseAssumptions},
}
