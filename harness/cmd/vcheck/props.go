package main

var baseAssumptions = []string{
	"the CLI binary built from /repo's working tree is what users run (black-box at process level)",
	"Go's regexp and regexp/syntax are correct as membership engine and parser",
	"rapid's generators and shrinker; every random choice is drawn through rapid from -rapid.seed derived from VERIF_SEED",
}

var props = map[string]propCfg{
	"C01": {Quick: 4000, Thorough: 120000, QuickSec: 60, ThoroughSec: 900,
		Rule: "rapid-generated regex-assembly programs (entries from an RE2∩PCRE grammar, markers, store/load, nested assemble and cmdline blocks, prefix/suffix, i/s flags, definitions, include files) compiled by the CLI and compared with the plain-reading reference by exact language equivalence (product determinisation); non-trivial = ≥2 entries and at least one of marker/nested block/load/prefix/suffix/flag/cmdline/include/definition reference, decided Equal exactly (not by cap); distinct = canonical text of program+files",
		Assumptions: baseAssumptions},
	"C02": {Quick: 6000, Thorough: 150000, QuickSec: 60, ThoroughSec: 600,
		Rule: "C01's program generator re-weighted so that half of all atoms come from the quoting/escaping stress set (quotes, backslashes, \\x5c, \\x22, raw and escaped control / non-ASCII runes, \\s classes, ^ $ . next to group boundaries), all flag spellings; pure predicates on stdout of every compiling program; non-trivial = the source contains at least one stress atom; distinct = canonical program text",
		Assumptions: baseAssumptions},
	"C19": {Quick: 30000, Thorough: 400000, QuickSec: 60, ThoroughSec: 600,
		Rule: "structure-aware fuzzing: 80% valid generated programs (with includes, definitions, blocks, layout noise) whose entries get hostile atoms spliced in (escaped parentheses followed by flag-like text, unbalanced groups, broken escapes, raw control/invalid UTF-8 bytes, brace fragments), 20% raw token soup over directive fragments; on stdin and in include files; oracle: terminates (10 s, re-run twice at 30 s), exit 0/1 or deliberate-panic exit 2, no Go runtime fault text on stderr; non-trivial = reached the clean-up passes (exit 0 with output) or contains a hostile token; distinct = stdin+files",
		Assumptions: baseAssumptions},
	"C03": {Quick: 1600, Thorough: 20000, QuickSec: 75, ThoroughSec: 900,
		Rule: "generated programs rich in map-driven constructs (definitions incl. nested, several suffix-replacement pairs, include-except, flag sets, lines that more than one directive pattern can claim) x command (generate from stdin/by id, format, format --check, update, compare, and the --all forms); each case is executed k times (quick 6, thorough 16) in fresh processes on fresh copies of the same tree in different directories; stdout, exit status and the bytes of the resulting tree must be identical; non-trivial = the program has a construct processed by ranging over a Go map; distinct = mode + canonical program text. Map orders can only be sampled: an order-dependent result with per-run flip probability p is missed with probability (1-p)^(k-1) per case",
		Assumptions: append([]string{"Go map iteration order is re-randomised per process and per range statement, so k fresh executions sample k orders"}, baseAssumptions...)},
}
