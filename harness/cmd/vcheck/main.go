// vcheck is the driver registered in MANIFEST.json: it builds the CLI from /repo's working tree,
// runs a property's generated search in shards, merges the evidence and prints the verdict.
package main

import (
	"encoding/json"
	"flag"
	"fmt"
	"hash/fnv"
	"os"
	"os/exec"
	"path/filepath"
	"runtime"
	"strconv"
	"strings"
	"sync"
	"time"

	"verifharness/stats"
)

type propCfg struct {
	Quick, Thorough       int // cases (all shards together)
	QuickSec, ThoroughSec int // wall budget for the generated search
	Rule                  string
	Assumptions           []string
	Level                 string
}

const (
	exitOK        = 0
	exitViolation = 1
	exitInfra     = 2
)

func die(code int, format string, a ...any) {
	fmt.Printf("ERROR "+format+"\n", a...)
	os.Exit(code)
}

func repoDir() string {
	if d := os.Getenv("VERIF_REPO"); d != "" {
		return d
	}
	return "/repo"
}

func verifRoot() string {
	if d := os.Getenv("VERIF_ROOT"); d != "" {
		return d
	}
	return "/verif"
}

func goEnv() []string {
	env := os.Environ()
	out := env[:0:0]
	for _, e := range env {
		if strings.HasPrefix(e, "GOFLAGS=") || strings.HasPrefix(e, "GOPROXY=") || strings.HasPrefix(e, "GOSUMDB=") || strings.HasPrefix(e, "GOTOOLCHAIN=") {
			continue
		}
		out = append(out, e)
	}
	return append(out, "GOPROXY=off", "GOSUMDB=off", "GOTOOLCHAIN=local", "CGO_ENABLED=0")
}

func run(dir string, env []string, name string, args ...string) (string, error) {
	cmd := exec.Command(name, args...)
	cmd.Dir = dir
	cmd.Env = env
	b, err := cmd.CombinedOutput()
	return string(b), err
}

func seedFor(base uint64, prop string, shard int) uint64 {
	h := fnv.New64a()
	fmt.Fprintf(h, "%d/%s/%d", base, prop, shard)
	s := h.Sum64() & 0x7fffffffffffffff
	if s == 0 {
		s = 1
	}
	return s
}

func scratchBase() string {
	if d := os.Getenv("VERIF_SCRATCH"); d != "" {
		return d
	}
	if st, err := os.Stat("/dev/shm"); err == nil && st.IsDir() {
		return "/dev/shm"
	}
	return os.TempDir()
}

func main() {
	prop := flag.String("prop", "", "property id (C01..C20)")
	tierF := flag.String("tier", "", "quick|thorough (default $VERIF_TIER or quick)")
	replay := flag.String("replay", "", "replay one saved case instead of searching")
	casesF := flag.Int("cases", 0, "override number of cases")
	shardsF := flag.Int("shards", 0, "override number of shards")
	secF := flag.Int("sec", 0, "override wall budget (seconds)")
	keep := flag.Bool("keep", false, "keep scratch directory")
	flag.Parse()
	if *prop == "" {
		die(exitInfra, "missing -prop")
	}
	cfg, ok := props[*prop]
	if !ok {
		die(exitInfra, "unknown property %s", *prop)
	}
	tier := *tierF
	if tier == "" {
		tier = os.Getenv("VERIF_TIER")
	}
	if tier != "thorough" {
		tier = "quick"
	}
	var seed uint64 = 1
	if v := os.Getenv("VERIF_SEED"); v != "" {
		if n, err := strconv.ParseInt(v, 10, 64); err == nil {
			seed = uint64(n)
		}
	}
	start := time.Now()

	scratch, err := os.MkdirTemp(scratchBase(), "vcheck-"+*prop+"-")
	if err != nil {
		die(exitInfra, "scratch: %v", err)
	}
	if !*keep {
		defer os.RemoveAll(scratch)
	}
	cleanupAndExit := func(code int) {
		if !*keep {
			os.RemoveAll(scratch)
		}
		os.Exit(code)
	}

	// 1. build the CLI from /repo's current working tree (GOFLAGS unset => -mod=readonly, go.sum untouched)
	cliBin := filepath.Join(scratch, "crs-toolchain")
	if out, err := run(repoDir(), goEnv(), "go", "build", "-tags", "verif", "-o", cliBin, "."); err != nil {
		fmt.Printf("ERROR cannot build %s: %v\n%s\n", repoDir(), err, out)
		cleanupAndExit(exitInfra)
	}
	extraEnv := []string{}
	if *prop == "C20" {
		for _, v := range []string{"v1.5.0", "v2.0.0", "v2.1.0-rc1", "", "v2.0.0-pkg"} {
			out := filepath.Join(scratch, "crs-toolchain-"+v)
			ld := "-X main.version=" + v
			if v == "" {
				out = filepath.Join(scratch, "crs-toolchain-noversion")
			}
			if v == "v2.0.0-pkg" {
				// version 2.0.0 with the full set of build variables, as a distribution's own build sets them
				ld = "-X main.version=v2.0.0 -X main.commit=0f60301 -X main.date=2026-01-02T03:04:05Z -X main.builtBy=homebrew"
			}
			if o, err := run(repoDir(), goEnv(), "go", "build", "-tags", "verif", "-ldflags", ld, "-o", out, "."); err != nil {
				fmt.Printf("ERROR cannot build %s: %v\n%s\n", repoDir(), err, o)
				cleanupAndExit(exitInfra)
			}
		}
	}

	// 2. build the property test binary
	harnessDir := filepath.Join(verifRoot(), "harness")
	testBin := filepath.Join(scratch, "props.test")
	henv := append(goEnv(), "GOFLAGS=-mod=mod")
	if out, err := run(harnessDir, henv, "go", "test", "-c", "-o", testBin, "./props"); err != nil {
		fmt.Printf("ERROR cannot build harness: %v\n%s\n", err, out)
		cleanupAndExit(exitInfra)
	}

	baseEnv := append(os.Environ(),
		"VERIF_CLI="+cliBin,
		"VERIF_CLI_DIR="+scratch,
		"VERIF_TIER="+tier,
		"VERIF_ROOT="+verifRoot(),
		"VERIF_REPO="+repoDir(),
		"VERIF_SCRATCH="+scratch,
	)
	baseEnv = append(baseEnv, extraEnv...)
	testName := "^Test" + *prop + "$"

	if *replay != "" {
		abs, _ := filepath.Abs(*replay)
		cmd := exec.Command(testBin, "-test.run", testName, "-test.count=1")
		cmd.Dir = filepath.Join(harnessDir, "props")
		cmd.Env = append(baseEnv, "VERIF_REPLAY_IN="+abs)
		out, err := cmd.CombinedOutput()
		fmt.Print(string(out))
		if strings.Contains(string(out), "REPLAY-VIOLATION") {
			fmt.Printf("VIOLATION property=%s replay=%s\n", *prop, abs)
			cleanupAndExit(exitViolation)
		}
		if err != nil || strings.Contains(string(out), "REPLAY-ERROR") {
			cleanupAndExit(exitInfra)
		}
		cleanupAndExit(exitOK)
	}

	cases, sec := cfg.Quick, cfg.QuickSec
	if tier == "thorough" {
		cases, sec = cfg.Thorough, cfg.ThoroughSec
	}
	if *casesF > 0 {
		cases = *casesF
	}
	if *secF > 0 {
		sec = *secF
	}
	shards := runtime.NumCPU()
	if shards > 16 {
		shards = 16
	}
	if *shardsF > 0 {
		shards = *shardsF
	}
	if shards > cases {
		shards = cases
	}
	per := (cases + shards - 1) / shards
	deadline := time.Now().Add(time.Duration(sec) * time.Second)
	replayDir := filepath.Join(verifRoot(), "replays")
	_ = os.MkdirAll(replayDir, 0o755)
	_ = os.Remove(filepath.Join(replayDir, fmt.Sprintf("%s-%s-seed%d.json", *prop, tier, seed)))

	type shardRes struct {
		out  string
		err  error
		st   *stats.Shard
		kill bool
	}
	res := make([]shardRes, shards)
	var wg sync.WaitGroup
	for i := 0; i < shards; i++ {
		wg.Add(1)
		go func(i int) {
			defer wg.Done()
			sfile := filepath.Join(scratch, fmt.Sprintf("stats-%d.json", i))
			rfile := filepath.Join(scratch, fmt.Sprintf("replay-%d.json", i))
			rs := seedFor(seed, *prop, i)
			cmd := exec.Command(testBin, "-test.run", testName, "-test.count=1", "-test.timeout=0",
				"-rapid.seed="+strconv.FormatUint(rs, 10), "-rapid.checks="+strconv.Itoa(per), "-rapid.nofailfile",
				"-rapid.shrinktime=20s")
			cmd.Dir = filepath.Join(harnessDir, "props")
			cmd.Env = append(append([]string{}, baseEnv...),
				"VERIF_SHARD="+strconv.Itoa(i), "VERIF_CASES="+strconv.Itoa(per),
				"VERIF_RAPID_SEED="+strconv.FormatUint(rs, 10),
				"VERIF_STATS_FILE="+sfile, "VERIF_REPLAY_OUT="+rfile,
				"VERIF_DEADLINE_UNIX="+strconv.FormatInt(deadline.Unix(), 10))
			done := make(chan struct{})
			var out []byte
			var err error
			go func() { out, err = cmd.CombinedOutput(); close(done) }()
			// hard stop well after the soft deadline: an overrun is infrastructure trouble, never a violation
			hard := time.Until(deadline) + 240*time.Second
			select {
			case <-done:
			case <-time.After(hard):
				if cmd.Process != nil {
					_ = cmd.Process.Kill()
				}
				<-done
				res[i].kill = true
			}
			res[i].out, res[i].err = string(out), err
			res[i].st, _ = stats.Load(sfile)
		}(i)
	}
	wg.Wait()

	// 3. merge
	distinct := map[uint64]bool{}
	classes := map[string]int{}
	extra := map[string]int64{}
	excluded := map[string]int{}
	var samples []any
	evals, inconclusive, exhausted := 0, 0, 0
	var failures []int
	var infra []string
	var known []stats.KnownResult
	for i, r := range res {
		if r.kill {
			infra = append(infra, fmt.Sprintf("shard %d overran the hard limit and was killed", i))
			continue
		}
		if r.st == nil {
			infra = append(infra, fmt.Sprintf("shard %d left no statistics (worker death?): %v\n%s", i, r.err, tail(r.out, 30)))
			continue
		}
		if r.st.HarnessError != "" {
			infra = append(infra, fmt.Sprintf("shard %d harness error: %s", i, r.st.HarnessError))
		}
		evals += r.st.Evaluations
		inconclusive += r.st.Inconclusive
		if r.st.BudgetExhausted {
			exhausted++
		}
		for _, h := range r.st.NonTrivial {
			distinct[h] = true
		}
		for k, v := range r.st.Classes {
			classes[k] += v
		}
		for k, v := range r.st.Extra {
			extra[k] += v
		}
		for k, v := range r.st.Excluded {
			excluded[k] += v
		}
		if len(samples) < 12 {
			for _, s := range r.st.Samples {
				if len(samples) < 12 {
					samples = append(samples, s)
				}
			}
		}
		known = append(known, r.st.Known...)
		if r.st.Failed {
			failures = append(failures, i)
		} else if r.err != nil && r.st.HarnessError == "" {
			infra = append(infra, fmt.Sprintf("shard %d exited abnormally without a recorded violation: %v\n%s", i, r.err, tail(r.out, 30)))
		}
	}

	violations := 0
	var lines []string
	// known findings: open ones are announced, fixed ones that reproduce are violations
	for _, k := range known {
		switch {
		case k.Status == "open" && k.Reproduces:
			lines = append(lines, fmt.Sprintf("KNOWN-FINDING: property=%s %s %s", *prop, k.Key, k.What))
		case k.Status == "open" && !k.Reproduces:
			lines = append(lines, fmt.Sprintf("NOTE property=%s open finding %s no longer reproduces on this tree", *prop, k.Key))
		case k.Status == "fixed" && k.Reproduces:
			violations++
			lines = append(lines, fmt.Sprintf("VIOLATION property=%s replay=%s", *prop, filepath.Join(verifRoot(), k.Witness)))
			lines = append(lines, fmt.Sprintf("  (regression of fixed finding %s: %s)", k.Key, k.Violation))
		}
	}
	if len(failures) > 0 {
		// keep the smallest replay file (rapid shrinks each shard's failure independently)
		best, bestSize := -1, int64(0)
		for _, i := range failures {
			p := filepath.Join(scratch, fmt.Sprintf("replay-%d.json", i))
			if fi, err := os.Stat(p); err == nil && (best < 0 || fi.Size() < bestSize) {
				best, bestSize = i, fi.Size()
			}
		}
		dst := filepath.Join(replayDir, fmt.Sprintf("%s-%s-seed%d.json", *prop, tier, seed))
		if best >= 0 {
			b, _ := os.ReadFile(filepath.Join(scratch, fmt.Sprintf("replay-%d.json", best)))
			_ = os.WriteFile(dst, b, 0o644)
			violations++
			lines = append(lines, fmt.Sprintf("VIOLATION property=%s replay=%s", *prop, dst))
			lines = append(lines, "  "+res[best].st.Failure)
		} else {
			infra = append(infra, "a shard recorded a violation but left no replay file")
		}
	}

	wall := time.Since(start).Seconds()
	if len(samples) == 0 {
		samples = append(samples, "no non-trivial case was produced")
	}
	clsSorted := map[string]int{}
	for k, v := range classes {
		clsSorted[k] = v
	}
	cov := map[string]any{
		"evaluations":               evals,
		"requested":                 per * shards,
		"distinct_nontrivial":       len(distinct),
		"rule":                      cfg.Rule,
		"samples":                   samples,
		"classes":                   clsSorted,
		"excluded_by_known_finding": excluded,
		"inconclusive_cases":        inconclusive,
		"shards":                    shards,
		"shards_budget_exhausted":   exhausted,
		"known_findings_replayed":   known,
		"budget_s":                  sec,
	}
	for k, v := range extra {
		cov[k] = v
	}
	ev := map[string]any{
		"property_id": *prop,
		"tier":        tier,
		"seed":        int64(seed),
		"level":       "exploration",
		"coverage":    cov,
		"assumptions": cfg.Assumptions,
		"wall_s":      wall,
		"violations":  violations,
	}
	eb, _ := json.MarshalIndent(ev, "", " ")
	_ = os.MkdirAll(filepath.Join(verifRoot(), "evidence"), 0o755)
	if err := os.WriteFile(filepath.Join(verifRoot(), "evidence", *prop+".json"), eb, 0o644); err != nil {
		infra = append(infra, "cannot write evidence: "+err.Error())
	}

	for _, l := range lines {
		fmt.Println(l)
	}
	fmt.Printf("SUMMARY property=%s tier=%s seed=%d evaluations=%d/%d distinct_nontrivial=%d inconclusive=%d shards_budget_exhausted=%d wall=%.1fs violations=%d\n",
		*prop, tier, seed, evals, per*shards, len(distinct), inconclusive, exhausted, wall, violations)
	if violations > 0 {
		cleanupAndExit(exitViolation)
	}
	if len(infra) > 0 {
		for _, m := range infra {
			fmt.Println("ERROR " + m)
		}
		cleanupAndExit(exitInfra)
	}
	cleanupAndExit(exitOK)
}

func tail(s string, n int) string {
	l := strings.Split(strings.TrimRight(s, "\n"), "\n")
	if len(l) > n {
		l = l[len(l)-n:]
	}
	return strings.Join(l, "\n")
}
