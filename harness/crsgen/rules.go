// Package crsgen builds CRS trees: rules files with operand spans known by construction,
// regression-test YAML, setup files with version markers, decoys and nested roots.
package crsgen

import (
	"fmt"
	"strings"

	"pgregory.net/rapid"
)

// Link is one SecRule line: the rule itself (first link) or a chained rule.
type Link struct {
	Vars    string `json:"vars"`
	Op      string `json:"op"` // "@rx", "!@rx", "@pm", "@streq", "@contains", ...
	Operand string `json:"operand"`
	Trail   string `json:"trail,omitempty"` // bytes after `" \` on the SecRule line (blanks)
	// Pre: full comment lines in front of this SecRule line (for chained links: comments inside the chain)
	Pre []string `json:"pre,omitempty"`
}

type Rule struct {
	ID       string   `json:"id"`
	Links    []Link   `json:"links"`
	Comments []string `json:"comments,omitempty"` // full comment lines before the rule
	Msg      string   `json:"msg,omitempty"`
	Blank    int      `json:"blank,omitempty"` // blank lines before the rule
}

type RulesFile struct {
	Name    string   `json:"name"` // e.g. REQUEST-932-APPLICATION-ATTACK-RCE.conf
	Header  []string `json:"header,omitempty"`
	Rules   []Rule   `json:"rules"`
	CRLF    bool     `json:"crlf,omitempty"`
	FinalNL bool     `json:"final_nl"`
	// TrailBlank: number of empty lines after the last rule (only with FinalNL)
	TrailBlank int `json:"trail_blank,omitempty"`
}

// Span locates an operand inside the rendered file.
type Span struct {
	Start, End int // byte offsets of the operand text (between `"@rx ` and `" \`)
	Line       int // 0-based line index
}

func Key(id string, offset int) string { return fmt.Sprintf("%s/%d", id, offset) }

// Render prints the file in CRS layout and returns the span of every operand.
func (f *RulesFile) Render() (string, map[string]Span) {
	eol := "\n"
	if f.CRLF {
		eol = "\r\n"
	}
	var sb strings.Builder
	spans := map[string]Span{}
	line := 0
	emit := func(s string) {
		sb.WriteString(s)
		sb.WriteString(eol)
		line++
	}
	for _, h := range f.Header {
		emit(h)
	}
	for _, r := range f.Rules {
		for i := 0; i < r.Blank; i++ {
			emit("")
		}
		for _, c := range r.Comments {
			emit(c)
		}
		for k, l := range r.Links {
			ind := strings.Repeat("    ", k)
			for _, c := range l.Pre {
				emit(c)
			}
			head := ind + "SecRule " + l.Vars + ` "` + l.Op + " "
			start := sb.Len() + len(head)
			spans[Key(r.ID, k)] = Span{Start: start, End: start + len(l.Operand), Line: line}
			emit(head + l.Operand + `" \` + l.Trail)
			last := k == len(r.Links)-1
			if k == 0 {
				emit(ind + `    "id:` + r.ID + `,\`)
				emit(ind + `    phase:2,\`)
				emit(ind + `    block,\`)
				msg := r.Msg
				if msg == "" {
					msg = "test rule"
				}
				emit(ind + `    msg:'` + msg + `',\`)
				if last {
					emit(ind + `    t:none"`)
				} else {
					emit(ind + `    t:none,\`)
					emit(ind + `    chain"`)
				}
			} else if last {
				emit(ind + `    "t:none"`)
			} else {
				emit(ind + `    "t:none,\`)
				emit(ind + `    chain"`)
			}
		}
	}
	s := sb.String()
	if !f.FinalNL {
		s = strings.TrimSuffix(s, eol)
	} else {
		s += strings.Repeat(eol, f.TrailBlank)
	}
	return s, spans
}

// RulesOpt steers rules-file generation.
type RulesOpt struct {
	Prefix      string // three-digit file prefix, e.g. "932"
	MinRules    int
	MaxRules    int
	MaxChain    int
	CRLF        bool // allow CRLF files
	NoFinalNL   bool // allow files without final newline
	Trail       bool // allow blanks after `" \`
	IDComments  bool // allow comments that spell `id:NNNNNN`
	HostileOps  bool // operands of non-target rules that look like operator text
	OperandPool []string
}

var otherOps = []string{"@pm", "@streq", "@contains", "@eq", "@ge", "@beginsWith", "@pmFromFile"}
var varsPool = []string{"&REQUEST_HEADERS:Content-Length", "!ARGS:foo|ARGS", "ARGS", "REQUEST_HEADERS:User-Agent", "ARGS_NAMES|ARGS", "REQUEST_COOKIES|!REQUEST_COOKIES:/__utm/", "TX:0", "MATCHED_VARS"}
var oldOperands = []string{"old", "foo|bar", `a\"@rx b`, `x\" \x5cy`, `\"@rx foo|bar`, `^(?:a|b)$`, `\bold\b`, `[\"']x`, `a\"b`, "", `(?i)x`, `x\x5cy`, `$`}

// GenRulesFile draws a rules file whose rule ids all start with o.Prefix.
func GenRulesFile(t *rapid.T, o RulesOpt) *RulesFile {
	f := &RulesFile{
		Name:    rapid.SampledFrom([]string{"REQUEST-%s-APPLICATION-ATTACK-X.conf", "RESPONSE-%s-DATA-LEAKAGES.conf", "REQUEST-%s-A.conf"}).Draw(t, "fname"),
		FinalNL: true,
	}
	f.Name = fmt.Sprintf(f.Name, o.Prefix)
	if o.CRLF && rapid.IntRange(0, 4).Draw(t, "crlf") == 0 {
		f.CRLF = true
	}
	if o.NoFinalNL && rapid.IntRange(0, 4).Draw(t, "nofinal") == 0 {
		f.FinalNL = false
	} else if o.NoFinalNL && rapid.IntRange(0, 3).Draw(t, "trailblank") == 0 {
		f.TrailBlank = rapid.IntRange(1, 3).Draw(t, "ntrailblank")
	}
	f.Header = []string{
		"# ------------------------------------------------------------------------",
		"# OWASP CRS ver.4.0.0",
		"# Copyright (c) 2021-2024 CRS project. All rights reserved.",
		"#",
		"",
	}
	n := rapid.IntRange(max(1, o.MinRules), max(1, o.MaxRules)).Draw(t, "nrules")
	used := map[string]bool{}
	for i := 0; i < n; i++ {
		var id string
		for {
			// ids share long prefixes on purpose: 932100, 932101, 932110, 932200 ...
			id = o.Prefix + rapid.SampledFrom([]string{"100", "101", "110", "111", "120", "200", "201", "010", "999", "000"}).Draw(t, "idtail")
			if !used[id] {
				break
			}
			id = fmt.Sprintf("%s%03d", o.Prefix, rapid.IntRange(0, 999).Draw(t, "idn"))
			if !used[id] {
				break
			}
		}
		used[id] = true
		r := Rule{ID: id, Blank: rapid.IntRange(0, 2).Draw(t, "blank")}
		nl := 1 + rapid.IntRange(0, o.MaxChain).Draw(t, "chain")
		for k := 0; k < nl; k++ {
			l := Link{Vars: rapid.SampledFrom(varsPool).Draw(t, "vars")}
			switch rapid.IntRange(0, 5).Draw(t, "op") {
			case 0:
				l.Op = "!@rx"
			case 1:
				l.Op = rapid.SampledFrom(otherOps).Draw(t, "oop")
			default:
				l.Op = "@rx"
			}
			pool := oldOperands
			if len(o.OperandPool) > 0 && rapid.Bool().Draw(t, "pool") {
				pool = o.OperandPool
			}
			l.Operand = rapid.SampledFrom(pool).Draw(t, "operand")
			if !strings.HasSuffix(l.Op, "@rx") && o.HostileOps && rapid.IntRange(0, 3).Draw(t, "hostileop") == 0 {
				l.Operand = rapid.SampledFrom([]string{`x "@rx y`, `"@rx `, `a" \`}).Draw(t, "hop")
			}
			if o.Trail && rapid.IntRange(0, 5).Draw(t, "trail") == 0 {
				l.Trail = rapid.SampledFrom([]string{" ", "  ", "\t"}).Draw(t, "trailv")
			}
			if k > 0 && o.IDComments && rapid.IntRange(0, 5).Draw(t, "chaincmt") == 0 {
				// comments inside a chain, some of them mentioning the directive or the action by name
				l.Pre = rapid.SampledFrom([][]string{
					{"    # The chained SecRule below restricts the match to shells"},
					{"    #SecRule REQUEST_HEADERS \"@rx disabled\" \\", "    #    \"t:none,\\", "    #    chain\""},
					{"# SecRule ARGS \"@rx old\" \\"},
					{"    #", "    # end of chain? no: one more link"},
				}).Draw(t, "chaincmtv")
			}
			r.Links = append(r.Links, l)
		}
		switch rapid.IntRange(0, 5).Draw(t, "cmt") {
		case 0:
			r.Comments = []string{"# Rule " + id + " detects things"}
		case 1:
			r.Comments = []string{"#", "# [ Section ]", "#"}
		case 2:
			if o.IDComments {
				r.Comments = []string{"# see also id:" + id + " below"}
			}
		case 3:
			if o.IDComments {
				// a commented-out previous version of the rule
				r.Comments = []string{"#SecRule ARGS \"@rx commented-out\" \\", "#    \"id:" + id + ",\\", "#    phase:2,\\", "#    t:none\""}
			}
		}
		r.Msg = rapid.SampledFrom([]string{"", "Attack detected", "Rule " + id, `matched "@rx thing`, "Possible attack chain detected", "Supply chain attack", "chain", "SecRule bypass"}).Draw(t, "msg")
		f.Rules = append(f.Rules, r)
	}
	return f
}

func max(a, b int) int {
	if a > b {
		return a
	}
	return b
}
