package props

import (
	"fmt"
	"strings"
	"testing"
	"time"

	"pgregory.net/rapid"

	"verifharness/cli"
)

// C16 — failures are loud: non-zero exit, no regex printed, no target file modified.

type C16Case struct {
	Words  [][]string `json:"words"`  // entries of the three assembly files
	Block  []bool     `json:"block"`  // file i wraps part of its entries in an assemble block
	UseInc []bool     `json:"useinc"` // file i includes include/shared.ra (which includes include/inner.ra)
	Fault  string     `json:"fault"`
	Where  string     `json:"where"` // top | block | include | nested-include
	File   int        `json:"file"`  // index of the faulty unit (0..2)
	Cmd    string     `json:"cmd"`   // generate | generate-stdin | update | compare | compare-github | format | format-check | update-copyright
	All    bool       `json:"all"`
	// Spell: renumber / renumber-check: how the test file is named on the command line (id | file)
	Spell string `json:"spell,omitempty"`
	// Variant selects among several spellings of the same fault (0 = the plain one)
	Variant int `json:"variant,omitempty"`
}

var c16Targets = []struct {
	name, id string
	off      int
}{{"932100", "932100", 0}, {"932110-chain1", "932110", 1}, {"932200", "932200", 0}}

var assemblyFaults = []string{"malformed-prefix-or-suffix", "include-is-a-directory", "missing-include", "missing-exclude-file", "unparsable-entry", "unknown-processor", "bad-cmdline-type", "missing-cmdline-type", "extra-end-marker", "missing-end-marker", "unknown-stored-name", "stored-name-of-another-file", "unsupported-flag", "odd-replacement-list", "flags-in-include"}
var rulesFaults = []string{"rule-id-absent", "chain-offset-beyond-chain", "chain-offset-past-end-of-chain", "no-rules-file", "two-rules-files", "target-without-rx"}
var formatFaults = []string{"extra-end-marker", "unsupported-flag"}

func genC16(t *rapid.T) C16Case {
	c := C16Case{}
	pool := []string{"alpha", "bravo", "charlie", "delta", "echo", "foxtrot", "golf", "hotel", "india"}
	for i := 0; i < 3; i++ {
		n := rapid.IntRange(2, 4).Draw(t, "nwords")
		c.Words = append(c.Words, rapid.Permutation(pool).Draw(t, "words")[:n])
		c.Block = append(c.Block, rapid.Bool().Draw(t, "block"))
		c.UseInc = append(c.UseInc, rapid.Bool().Draw(t, "useinc"))
	}
	c.File = rapid.IntRange(0, 2).Draw(t, "file")
	c.Variant = rapid.IntRange(0, 6).Draw(t, "variant")
	c.Cmd = rapid.SampledFrom([]string{"generate", "generate-stdin", "update", "update", "compare", "compare-github", "format", "format-check", "update-copyright", "bad-argument", "renumber", "renumber-check"}).Draw(t, "cmd")
	switch c.Cmd {
	case "generate", "generate-stdin":
		c.Fault = rapid.SampledFrom(assemblyFaults).Draw(t, "fault")
	case "update", "compare", "compare-github":
		if rapid.IntRange(0, 2).Draw(t, "rulesfault") == 0 {
			c.Fault = rapid.SampledFrom(rulesFaults).Draw(t, "fault")
		} else {
			c.Fault = rapid.SampledFrom(assemblyFaults).Draw(t, "fault")
		}
		c.All = rapid.Bool().Draw(t, "all")
	case "format", "format-check":
		c.Fault = rapid.SampledFrom(formatFaults).Draw(t, "fault")
		c.All = rapid.Bool().Draw(t, "all")
	case "update-copyright":
		c.Fault = rapid.SampledFrom([]string{"invalid-version:notaversion", "invalid-version:4.x", "invalid-version:", "invalid-version:1.2.3.4.5", "invalid-version:..", "missing-version"}).Draw(t, "fault")
	case "renumber", "renumber-check":
		// the test file of the rule does not exist, or the same file name exists in two test directories
		c.Fault = rapid.SampledFrom([]string{"test-file-absent", "test-file-ambiguous", "test-file-ambiguous"}).Draw(t, "fault")
		c.Spell = rapid.SampledFrom([]string{"id", "file"}).Draw(t, "spell")
	case "bad-argument":
		// offsets above 255 come with an assembly file of that name: the argument itself is what is wrong
		c.Fault = "malformed-rule-id:" + rapid.SampledFrom([]string{"93210", "9321000", "932100-chain", "932100-chain256", "932100-chain257", "932110-chain257", "932100-chain512", "932100-chain65536", "abcdef", "932100.rb", "932100-chain1x", ""}).Draw(t, "badarg")
		c.Cmd = rapid.SampledFrom([]string{"generate", "update", "compare"}).Draw(t, "badargcmd")
	}
	c.Where = rapid.SampledFrom([]string{"top", "block", "include", "nested-include"}).Draw(t, "where")
	switch c.Fault {
	case "flags-in-include":
		c.Where = rapid.SampledFrom([]string{"include", "nested-include"}).Draw(t, "where2")
	case "unsupported-flag", "malformed-prefix-or-suffix":
		if c.Where == "include" || c.Where == "nested-include" {
			c.Where = "top"
		}
	}
	if strings.HasPrefix(c.Cmd, "format") && (c.Where == "include" || c.Where == "nested-include") {
		c.Where = "top" // format does not resolve includes
	}
	if c.Where == "block" {
		c.Block[c.File] = true
	}
	if c.Where == "include" || c.Where == "nested-include" {
		c.UseInc[c.File] = true
		// the shared include would make every including file faulty: only the faulty unit includes it
		for i := range c.UseInc {
			if i != c.File {
				c.UseInc[i] = false
			}
		}
	}
	if c.Fault == "chain-offset-past-end-of-chain" {
		c.File = 1 // only the chained unit can overshoot a chain that exists
	}
	return c
}

var c16UnknownProcessor = [][]string{{"##!> frobnicate", "x", "##!<"}, {"##!> Include shared"}, {"##!> incldue shared"}, {"##!>"}, {"##!> 2assemble"}, {"##!> ASSEMBLE"}, {"##!> include-all shared"}}
var c16BadCmdlineType = [][]string{{"##!> cmdline foo", "ls", "##!<"}, {"##!> cmdline unix-foo", "ls", "##!<"}, {"##!> cmdline windows9", "ls", "##!<"}, {"##!> cmdline Unix", "ls", "##!<"}, {"##!> cmdline unixx", "ls", "##!<"}, {"##!> cmdline unix,windows", "ls", "##!<"}}

func c16FaultLines(fault string, variant ...int) []string {
	v := 0
	if len(variant) > 0 {
		v = variant[0]
	}
	switch fault {
	case "malformed-prefix-or-suffix":
		return [][]string{{"##!$ )"}, {"##!^ ("}, {"##!^ [a-"}, {"##!$ a{2,1}"}, {"##!^ x)y"}}[v%5]
	case "unknown-processor":
		return c16UnknownProcessor[v%len(c16UnknownProcessor)]
	case "bad-cmdline-type":
		return c16BadCmdlineType[v%len(c16BadCmdlineType)]
	case "unsupported-flag":
		// spellings: a foreign letter, the upper-case forms of the two supported letters, a bad letter after a good one
		return []string{[]string{"##!+ x", "##!+ I", "##!+ S", "##!+ iS", "##!+ sI", "##!+ m", "##!+ U"}[v%7]}
	}
	return c16FaultLinesPlain(fault)
}

func c16FaultLinesPlain(fault string) []string {
	switch fault {
	case "missing-include":
		return []string{"##!> include does-not-exist"}
	case "missing-exclude-file":
		return []string{"##!> include-except shared does-not-exist"}
	case "include-is-a-directory":
		// nothing but a directory answers to the name of the include file
		return []string{"##!> include dirlist"}
	case "unparsable-entry":
		return []string{"ok1", "a{2,1}(unclosed", "ok2"}
	case "unknown-processor":
		return []string{"##!> frobnicate", "x", "##!<"}
	case "bad-cmdline-type":
		return []string{"##!> cmdline foo", "ls", "##!<"}
	case "missing-cmdline-type":
		return []string{"##!> cmdline", "ls", "##!<"}
	case "extra-end-marker":
		return []string{"##!<"}
	case "missing-end-marker":
		return []string{"##!> assemble", "unterminated"}
	case "unknown-stored-name":
		return []string{"##!=> never-stored"}
	case "stored-name-of-another-file":
		return []string{"##!=> stored-elsewhere"}
	case "unsupported-flag":
		return []string{"##!+ x"}
	case "odd-replacement-list":
		return []string{"##!> include shared -- a"}
	case "flags-in-include":
		return []string{"##!+ i"}
	}
	return nil
}

// build returns the tree; withFault=false gives the healthy tree.
func (c C16Case) build(withFault bool) cli.Tree {
	t := cli.Tree{
		"regex-assembly/include/shared.ra":     "shared1\nshared2\n##!> include inner\n",
		"regex-assembly/include/inner.ra":      "inner1\ninner2\n",
		"crs-setup.conf.example":               "# OWASP CRS ver.4.0.0\n# Copyright (c) 2021-2024 CRS project. All rights reserved.\n",
		"tests/regression/tests/R/932100.yaml": "---\ntests:\n  - test_id: 5\n  - test_id: 9\n",
		// stray assembly files that are no rule files; they sort before, between and after the rule files
		"regex-assembly/0-scratch.ra":    "scratch\n",
		"regex-assembly/932105-draft.ra": "draft\n",
		"regex-assembly/zz-notes.ra":     "notes\n",
	}
	if arg := strings.TrimPrefix(c.Fault, "malformed-rule-id:"); withFault && arg != c.Fault && arg != "" && !strings.Contains(arg, "/") {
		t["regex-assembly/"+strings.TrimSuffix(arg, ".ra")+".ra"] = "named like the argument\nsecond entry\n"
	}
	if withFault {
		switch c.Fault {
		case "include-is-a-directory":
			t["regex-assembly/include/dirlist.ra/"] = ""
		case "test-file-absent":
			delete(t, "tests/regression/tests/R/932100.yaml")
			t["tests/regression/tests/R/932101.yaml"] = "---\ntests:\n  - test_id: 5\n"
			// a file named after the rule that is no test file
			switch c.Variant % 4 {
			case 1:
				t["tests/regression/tests/R/932100.txt"] = "  - test_id: 5\n"
			case 3:
				t["tests/regression/tests/R/932100.yaml.disabled"] = "  - test_id: 5\n"
			}
		case "test-file-ambiguous":
			t["tests/regression/tests/S/932100.yaml"] = "---\ntests:\n  - test_id: 7\n"
		}
	}
	fl := c16FaultLines(c.Fault, c.Variant)
	for i, tg := range c16Targets {
		var lines []string
		w := c.Words[i]
		inject := withFault && i == c.File && fl != nil
		if inject && c.Where == "top" && c.Fault == "unsupported-flag" {
			lines = append(lines, fl...)
		}
		if withFault && c.Fault == "stored-name-of-another-file" && i != c.File {
			// the other files store the name the faulty unit tries to load
			lines = append(lines, "prefix"+tg.id, "##!=< stored-elsewhere", "##!=> stored-elsewhere")
		}
		lines = append(lines, w[0])
		if c.Block[i] {
			lines = append(lines, "##!> assemble")
			lines = append(lines, "  "+w[1])
			if inject && c.Where == "block" {
				for _, l := range fl {
					lines = append(lines, "  "+l)
				}
			}
			lines = append(lines, "  inblock", "##!<")
		} else {
			lines = append(lines, w[1])
		}
		if c.UseInc[i] {
			lines = append(lines, "##!> include shared")
		}
		if inject && c.Where == "top" && c.Fault != "unsupported-flag" {
			lines = append(lines, fl...)
		}
		lines = append(lines, w[2:]...)
		name := tg.name
		if withFault {
			name = c.unitName(i)
		}
		t["regex-assembly/"+name+".ra"] = strings.Join(lines, "\n") + "\n"
	}
	if withFault && fl != nil {
		switch c.Where {
		case "include":
			t["regex-assembly/include/shared.ra"] = "shared1\n" + strings.Join(fl, "\n") + "\nshared2\n##!> include inner\n"
		case "nested-include":
			t["regex-assembly/include/inner.ra"] = "inner1\n" + strings.Join(fl, "\n") + "\ninner2\n"
		}
	}
	rules := func(skipID string, shortChain bool, otherOp bool) string {
		var sb strings.Builder
		sb.WriteString("# OWASP CRS ver.4.0.0\n\n")
		emit := func(id string, links int, op string) {
			for k := 0; k < links; k++ {
				ind := strings.Repeat("    ", k)
				o := "@rx"
				if k == links-1 && op != "" {
					o = op
				}
				sb.WriteString(fmt.Sprintf("%sSecRule ARGS \"%s old-%s-%d\" \\\n", ind, o, id, k))
				if k == 0 {
					// texts that merely mention the chain action: a message and a tag
					sb.WriteString(fmt.Sprintf("%s    \"id:%s,\\\n%s    phase:2,\\\n%s    msg:'Possible attack chain detected',\\\n%s    tag:'attack-chain',\\\n", ind, id, ind, ind, ind))
				} else {
					sb.WriteString(ind + "    \"")
				}
				if k == links-1 {
					if k == 0 {
						sb.WriteString(ind + "    t:none\"\n")
					} else {
						sb.WriteString("t:none\"\n")
					}
				} else if k == 0 {
					sb.WriteString(ind + "    t:none,\\\n" + ind + "    chain\"\n")
				} else {
					sb.WriteString("t:none,\\\n" + ind + "    chain\"\n")
				}
			}
			sb.WriteString("\n")
		}
		for i, tg := range c16Targets {
			faulty := i == c.File
			if faulty && skipID != "" {
				continue
			}
			links := tg.off + 1
			if faulty && shortChain {
				links = tg.off // one link too few (0 => rule vanishes, covered by skip)
				if links == 0 {
					continue
				}
			}
			op := ""
			if faulty && otherOp {
				op = "@pm"
			}
			emit(tg.id, links, op)
		}
		return sb.String()
	}
	name := "rules/REQUEST-932-APPLICATION-ATTACK-RCE.conf"
	t[name] = rules("", false, false)
	if withFault {
		switch c.Fault {
		case "rule-id-absent":
			t[name] = rules("skip", false, false)
		case "chain-offset-beyond-chain":
			t[name] = rules("", true, false)
		case "target-without-rx":
			t[name] = rules("", false, true)
		case "no-rules-file":
			delete(t, name)
			t["rules/"] = ""
			if c.Variant%2 == 1 {
				// what is left is a backup of the rules file, not a rules file
				t[name+".bak"] = rules("", false, false)
			}
		case "two-rules-files":
			t["rules/REQUEST-932-APPLICATION-ATTACK-OTHER.conf"] = "# second file with the same prefix\n"
		}
	}
	return t
}

func (c C16Case) unitName(i int) string {
	if c.Fault == "chain-offset-past-end-of-chain" && i == 1 {
		return "932110-chain2" // the rule has one chained rule only
	}
	return c16Targets[i].name
}

func (c C16Case) argv(root string, withFault bool) ([]string, string) {
	tg := c16Targets[c.File]
	arg := tg.name
	if withFault {
		arg = c.unitName(c.File)
	}
	if strings.HasPrefix(c.Fault, "malformed-rule-id:") {
		arg = strings.TrimPrefix(c.Fault, "malformed-rule-id:")
	}
	base := []string{"-d", root}
	switch c.Cmd {
	case "generate":
		return append(base, "regex", "generate", arg), ""
	case "generate-stdin":
		return append(base, "regex", "generate", "-"), "stdin"
	case "update":
		if c.All {
			return append(base, "regex", "update", "--all"), ""
		}
		return append(base, "regex", "update", arg), ""
	case "compare":
		if c.All {
			return append(base, "regex", "compare", "--all"), ""
		}
		return append(base, "regex", "compare", arg), ""
	case "compare-github":
		if c.All {
			return append(base, "-o", "github", "regex", "compare", "--all"), ""
		}
		return append(base, "-o", "github", "regex", "compare", arg), ""
	case "format":
		if c.All {
			return append(base, "regex", "format", "--all"), ""
		}
		return append(base, "regex", "format", arg), ""
	case "format-check":
		if c.All {
			return append(base, "regex", "format", "--check", "--all"), ""
		}
		return append(base, "regex", "format", "--check", arg), ""
	case "renumber", "renumber-check":
		a := []string{"util", "renumber-tests"}
		if c.Cmd == "renumber-check" {
			a = append(a, "--check")
		}
		if c.Spell == "file" {
			return append(base, append(a, "932100.yaml")...), ""
		}
		return append(base, append(a, "932100")...), ""
	case "update-copyright":
		if c.Fault == "missing-version" {
			return append(base, "chore", "update-copyright", "-y", "2026"), ""
		}
		v := strings.TrimPrefix(c.Fault, "invalid-version:")
		return append(base, "chore", "update-copyright", "-v", v, "-y", "2026"), ""
	}
	return base, ""
}

func checkC16(c C16Case) Outcome {
	lab := []string{"fault:" + strings.SplitN(c.Fault, ":", 2)[0], "cmd:" + c.Cmd, "where:" + c.Where}
	if c.All {
		lab = append(lab, "all")
	}
	out := Outcome{Labels: lab, Detail: map[string]any{"fault": c.Fault, "where": c.Where, "cmd": c.Cmd, "all": c.All, "file": c16Targets[c.File].name}}
	isRulesFault := false
	for _, f := range rulesFaults {
		if c.Fault == f {
			isRulesFault = true
		}
	}
	if c.Fault == "chain-offset-beyond-chain" && c16Targets[c.File].off == 0 {
		// no chain to fall short of: same as an absent rule
		out.Labels = append(out.Labels, "degenerate:offset0")
	}
	runOn := func(tree cli.Tree, withFault bool) (cli.Result, cli.Tree, cli.Tree) {
		sb := cli.NewSandbox("c16")
		defer sb.Close()
		root := sb.Path("crs")
		if err := tree.Write(root); err != nil {
			panic(err)
		}
		argv, mode := c.argv(root, withFault)
		stdin := ""
		if mode == "stdin" {
			stdin = tree["regex-assembly/"+c16Targets[c.File].name+".ra"]
		}
		before := cli.ReadTree(root)
		r := cli.Run(cli.Opt{Dir: sb.Root, Stdin: stdin, Timeout: 30 * time.Second}, argv...)
		return r, before, cli.ReadTree(root)
	}
	// converse first: the healthy tree must work (guards against "everything fails")
	if !strings.HasPrefix(c.Fault, "invalid-version") && c.Fault != "missing-version" && !strings.HasPrefix(c.Fault, "malformed-rule-id") {
		hr, _, _ := runOn(c.build(false), false)
		okExit := hr.Exit == 0 || (strings.HasPrefix(c.Cmd, "compare") && hr.Exit == 1 && (strings.Contains(hr.Stdout, "has changed") || c.Cmd == "compare-github")) || (c.Cmd == "format-check" && hr.Exit == 1) || (c.Cmd == "renumber-check" && hr.Exit == 1)
		if !okExit {
			out.Detail["healthy_exit"], out.Detail["healthy_stderr"] = hr.Exit, tailLines(hr.Stderr, 5)
			out.HarnessError = fmt.Sprintf("the healthy tree does not work with %s (exit %d)", c.Cmd, hr.Exit)
			return out
		}
		if strings.HasPrefix(c.Cmd, "generate") && hr.Stdout == "" {
			out.HarnessError = "the healthy tree generates nothing"
			return out
		}
	}
	tree := c.build(true)
	r, before, after := runOn(tree, true)
	out.Detail["exit"], out.Detail["stdout"], out.Detail["stderr"] = r.Exit, clip(r.Stdout, 400), headTail(r.Stderr, 3, 5)
	out.Detail["faulty_file"] = tree["regex-assembly/"+c16Targets[c.File].name+".ra"]
	if c.Where == "include" {
		out.Detail["shared.ra"] = tree["regex-assembly/include/shared.ra"]
	}
	if c.Where == "nested-include" {
		out.Detail["inner.ra"] = tree["regex-assembly/include/inner.ra"]
	}
	if isRulesFault {
		out.Detail["rules"] = tree["rules/REQUEST-932-APPLICATION-ATTACK-RCE.conf"]
	}
	if f := cli.RuntimeFault(r.Stderr); f != "" {
		out.Violation = "runtime fault instead of a diagnostic: " + f
		return out
	}
	if r.Exit == 0 {
		out.Violation = fmt.Sprintf("`%s` exits 0 although the request cannot be fulfilled (%s, %s)", c.Cmd, c.Fault, c.Where)
		return out
	}
	switch {
	case strings.HasPrefix(c.Cmd, "generate"):
		if r.Stdout != "" {
			out.Violation = "generate failed but printed a regex"
			return out
		}
	case strings.HasPrefix(c.Cmd, "compare"):
		if strings.Contains(r.Stdout, "Regex of "+c16Targets[c.File].id+" has not changed") && !c.All {
			out.Violation = "compare failed but reports the faulty rule as unchanged"
			return out
		}
	}
	changed := treeDiff(before, after)
	if c.All && c.Cmd == "format" {
		// the healthy files may be formatted; the faulty unit must stay as it was
		faulty := "regex-assembly/" + c16Targets[c.File].name + ".ra"
		for _, p := range changed {
			if p == faulty || !strings.HasSuffix(p, ".ra") {
				out.Detail["changed"] = changed
				out.Violation = fmt.Sprintf("format --all failed but modified %s", p)
				return out
			}
		}
	} else if !c.All || !strings.HasPrefix(c.Cmd, "update") {
		if len(changed) > 0 {
			out.Detail["changed"] = changed
			out.Violation = fmt.Sprintf("the command failed but modified %v", changed)
			return out
		}
	} else {
		// update --all: the faulty unit's operand must be untouched; other operands old or correctly generated
		for _, p := range changed {
			if !strings.HasPrefix(p, "rules/") {
				out.Violation = fmt.Sprintf("update --all failed and modified %s", p)
				return out
			}
			bl, al := strings.Split(before[p], "\n"), strings.Split(after[p], "\n")
			if len(bl) != len(al) {
				out.Violation = "update --all failed and changed the number of lines of " + p
				return out
			}
			tg := c16Targets[c.File]
			for i := range bl {
				if bl[i] != al[i] && strings.Contains(bl[i], fmt.Sprintf("old-%s-%d", tg.id, tg.off)) {
					out.Detail["line_before"], out.Detail["line_after"] = bl[i], al[i]
					out.Violation = "update --all failed but rewrote the operand of the faulty unit"
					return out
				}
			}
		}
	}
	out.NonTrivial = c.Where != "top" || c.File != 0 || !strings.HasPrefix(c.Cmd, "generate")
	out.Key = fmt.Sprintf("%v", c)
	out.Sample = map[string]any{"fault": c.Fault, "where": c.Where, "unit": c16Targets[c.File].name, "cmd": c.Cmd, "all": c.All, "exit": r.Exit, "diagnostic": clip(tailLines(r.Stderr, 1), 200)}
	return out
}

func TestC16(t *testing.T) { RunProp(t, "C16", genC16, checkC16) }
