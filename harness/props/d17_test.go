package props

import (
	"strings"

	"verifharness/reqv"
)

// predUndecided is set when a class predicate could not decide because an exact comparison hit its
// state cap; the caller then counts the case as inconclusive instead of reporting a violation.
var predUndecided bool

func predCompare(a, b string, o reqv.Options) reqv.Result {
	r := reqv.Compare(a, b, o)
	if r.Verdict == reqv.Inconclusive {
		predUndecided = true
	}
	return r
}

// dotPositions returns the byte offsets of dots in an output-dialect regex that are
// metacharacters: not escaped and not inside a character class.
func dotPositions(s string) []int {
	var pos []int
	inClass := false
	for i := 0; i < len(s); i++ {
		c := s[i]
		if c == '\\' {
			i++
			continue
		}
		if inClass {
			if c == ']' {
				inClass = false
			}
			continue
		}
		switch c {
		case '[':
			inClass = true
			if i+1 < len(s) && s[i+1] == '^' {
				i++
			}
			if i+1 < len(s) && s[i+1] == ']' {
				i++
			}
		case '.':
			pos = append(pos, i)
		}
	}
	return pos
}

// inD17Class decides whether a language difference is exactly the open known finding D17: the
// assembler strips `(?s:` flag groups, so a dot that stood for "any character" (an alternation
// covering every character, e.g. `[\s\S]`, `.|\n`, `[^a]|a`) no longer matches a newline. The
// difference belongs to that class iff giving the newline back to some subset of the dots of the
// generated regex makes it exactly equivalent to the plain reading. Any other difference (or a
// difference that remains afterwards) is reported as a violation.
func inD17Class(ref, got string) bool {
	pos := dotPositions(got)
	if len(pos) == 0 {
		return false
	}
	if len(pos) > 8 {
		// too many dots to try every subset: fall back to the defining effect of the finding — the
		// generated regex accepts a subset of the plain reading, and both agree exactly on every
		// subject string that contains no newline
		sub := predCompare("(?:"+ref+")|(?:"+got+")", ref, reqv.Options{SkipVT: true, MaxState: 300000})
		if sub.Verdict != reqv.Equal {
			return false
		}
		nonl := predCompare(ref, got, reqv.Options{SkipVT: true, MaxState: 300000, Skip: []rune{'\n'}})
		return nonl.Verdict == reqv.Equal
	}
	n := len(pos)
	// try "all dots" first, then the other non-empty subsets
	order := []int{(1 << n) - 1}
	for m := 1; m < (1<<n)-1; m++ {
		order = append(order, m)
	}
	for _, mask := range order {
		var sb strings.Builder
		last := 0
		for i, p := range pos {
			if mask&(1<<i) == 0 {
				continue
			}
			sb.WriteString(got[last:p])
			sb.WriteString(`(?s:.)`)
			last = p + 1
		}
		sb.WriteString(got[last:])
		r := predCompare(ref, sb.String(), reqv.Options{SkipVT: true, MaxState: 300000})
		if r.Verdict == reqv.Equal {
			return true
		}
	}
	return false
}

// inD30Class decides whether a language difference is exactly the open known finding D30, the
// mirror image of D17 under the `s` flag: an alternative that is the class `[^\n]` is turned into
// `(?-s:.)` by the engine, stripping the flag group leaves `.`, and under the global `(?s)` that dot
// now matches a newline. The difference belongs to the class iff taking the newline away from some
// subset of the dots of the generated regex makes it exactly equivalent to the plain reading.
func inD30Class(ref, got string) bool {
	pos := dotPositions(got)
	if len(pos) == 0 {
		return false
	}
	if len(pos) > 8 {
		// too many dots for every subset: the defining effect instead — the generated regex accepts a
		// superset of the plain reading and both agree exactly on subject strings without a newline
		sup := predCompare("(?:"+ref+")|(?:"+got+")", got, reqv.Options{SkipVT: true, MaxState: 300000})
		if sup.Verdict != reqv.Equal {
			return false
		}
		nonl := predCompare(ref, got, reqv.Options{SkipVT: true, MaxState: 300000, Skip: []rune{'\n'}})
		return nonl.Verdict == reqv.Equal
	}
	n := len(pos)
	order := []int{(1 << n) - 1}
	for m := 1; m < (1<<n)-1; m++ {
		order = append(order, m)
	}
	for _, mask := range order {
		var sb strings.Builder
		last := 0
		for i, p := range pos {
			if mask&(1<<i) == 0 {
				continue
			}
			sb.WriteString(got[last:p])
			sb.WriteString(`[^\n]`)
			last = p + 1
		}
		sb.WriteString(got[last:])
		r := predCompare(ref, sb.String(), reqv.Options{SkipVT: true, MaxState: 300000})
		if r.Verdict == reqv.Equal {
			return true
		}
	}
	return false
}

func hasLabel(l []string, x string) bool {
	for _, s := range l {
		if s == x {
			return true
		}
	}
	return false
}

// inD20Class decides whether a language difference is exactly the open known finding D20: a
// character class that is exactly one case-fold orbit (`[aA]`, or entries `a` and `A` merged) is
// printed by the engine as `(?i:A)`, and stripping that flag group keeps one case only. The
// difference belongs to the class iff (1) the generated regex accepts a subset of the plain
// reading and (2) both are exactly equivalent when compared case-insensitively.
func inD20Class(ref, got string) bool {
	sub := predCompare("(?:"+ref+")|(?:"+got+")", ref, reqv.Options{SkipVT: true, MaxState: 300000})
	if sub.Verdict != reqv.Equal {
		return false
	}
	ci := predCompare("(?i)(?:"+ref+")", "(?i)(?:"+got+")", reqv.Options{SkipVT: true, MaxState: 300000})
	return ci.Verdict == reqv.Equal
}

// inD21Class decides whether a language difference is exactly the open known finding D21: with
// the `i` flag, a negated class that the engine prints in positive form reaches beyond ASCII and
// therefore contains U+212A (Kelvin sign) and U+017F (long s); an engine with Unicode case
// folding then matches `k`/`s` through them although the source class excluded those letters.
// The difference belongs to the class iff it disappears when exactly the two fold orbits
// {k, K, U+212A} and {s, S, U+017F} are left out of the compared alphabet.
func inD21Class(ref, got string) bool {
	r := predCompare(ref, got, reqv.Options{SkipVT: true, MaxState: 300000, Skip: []rune{'k', 'K', 0x212a, 's', 'S', 0x17f}})
	return r.Verdict == reqv.Equal
}
