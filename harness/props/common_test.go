package props

import (
	"strings"
	"time"

	"verifharness/cli"
	"verifharness/ragen"
)

// generate runs `regex generate -` on the program inside a fresh sandbox.
func generate(p *ragen.Program) cli.Result {
	sb := cli.NewSandbox("gen")
	defer sb.Close()
	if err := cli.Tree(p.Tree()).Write(sb.Path("crs")); err != nil {
		panic(err)
	}
	return cli.Run(cli.Opt{Dir: sb.Root, Stdin: p.MainText(), Timeout: 30 * time.Second}, "-d", sb.Path("crs"), "regex", "generate", "-")
}

// generateWith runs `regex generate -` with extra global arguments (e.g. -l debug, -o github) in front.
func generateWith(p *ragen.Program, global ...string) cli.Result {
	sb := cli.NewSandbox("gen")
	defer sb.Close()
	if err := cli.Tree(p.Tree()).Write(sb.Path("crs")); err != nil {
		panic(err)
	}
	args := append(append([]string{}, global...), "-d", sb.Path("crs"), "regex", "generate", "-")
	return cli.Run(cli.Opt{Dir: sb.Root, Stdin: p.MainText(), Timeout: 30 * time.Second}, args...)
}

// generateFile runs `regex generate 942999` with the program stored as regex-assembly/942999.ra: the
// file variant of the command must print what the stdin variant prints for the same bytes.
func generateFile(p *ragen.Program) cli.Result {
	sb := cli.NewSandbox("genf")
	defer sb.Close()
	tree := cli.Tree(p.Tree())
	tree["regex-assembly/942999.ra"] = p.MainText()
	if err := tree.Write(sb.Path("crs")); err != nil {
		panic(err)
	}
	return cli.Run(cli.Opt{Dir: sb.Root, Timeout: 30 * time.Second}, "-d", sb.Path("crs"), "regex", "generate", "942999")
}

// generateText runs generate on raw stdin text with the given tree below crs/.
func generateText(tree map[string]string, stdin string) cli.Result {
	sb := cli.NewSandbox("gen")
	defer sb.Close()
	t := cli.Tree{"regex-assembly/": ""}
	for k, v := range tree {
		t[k] = v
	}
	if err := t.Write(sb.Path("crs")); err != nil {
		panic(err)
	}
	return cli.Run(cli.Opt{Dir: sb.Root, Stdin: stdin, Timeout: 30 * time.Second}, "-d", sb.Path("crs"), "regex", "generate", "-")
}

func labelsOf(m map[string]bool) []string {
	var out []string
	for k, v := range m {
		if v {
			out = append(out, k)
		}
	}
	return out
}

func clip(s string, n int) string {
	if len(s) > n {
		return s[:n] + "…(" + itoa(len(s)) + " bytes)"
	}
	return s
}

func itoa(n int) string {
	if n == 0 {
		return "0"
	}
	neg := n < 0
	if neg {
		n = -n
	}
	var b []byte
	for n > 0 {
		b = append([]byte{byte('0' + n%10)}, b...)
		n /= 10
	}
	if neg {
		b = append([]byte{'-'}, b...)
	}
	return string(b)
}

func tailLines(s string, n int) string {
	l := strings.Split(strings.TrimRight(s, "\n"), "\n")
	if len(l) > n {
		l = l[len(l)-n:]
	}
	return strings.Join(l, "\n")
}

func headTail(s string, h, t int) string {
	l := strings.Split(strings.TrimRight(s, "\n"), "\n")
	if len(l) <= h+t {
		return strings.Join(l, "\n")
	}
	return strings.Join(l[:h], "\n") + "\n…\n" + strings.Join(l[len(l)-t:], "\n")
}
