package props

import (
	"fmt"
	"strings"
	"testing"
	"time"
	"verifharness/cli"

	"pgregory.net/rapid"

	"verifharness/ragen"
	"verifharness/reqv"
)

// C04 — cmdline blocks match every listed command with anti-evasion tokens interleaved.

type C04Case struct {
	Prog *ragen.Program `json:"prog"`
	Cfg  ragen.Config   `json:"cfg"`
	Seed uint64         `json:"seed"` // drives the evasion-string sampler
	Pure bool           `json:"pure"` // the program is a single cmdline block at top level
	Lab  []string       `json:"labels,omitempty"`
	// CfgName: the configuration file has this name instead of toolchain.yaml and is named with -f;
	// FFirst: -f is written in front of -d on the command line
	CfgName string `json:"cfg_name,omitempty"`
	FFirst  bool   `json:"f_first,omitempty"`
}

// runC04 generates from the program, with the configuration file under the name the case says.
func runC04(c C04Case) cli.Result {
	if c.CfgName == "" {
		return generate(c.Prog)
	}
	sb := cli.NewSandbox("c04")
	defer sb.Close()
	tree := cli.Tree(c.Prog.Tree())
	for _, k := range []string{"regex-assembly/toolchain.yaml", "regex-assembly/toolchain.yaml/"} {
		if v, ok := tree[k]; ok {
			delete(tree, k)
			tree[strings.Replace(k, "toolchain.yaml", c.CfgName, 1)] = v
		}
	}
	if err := tree.Write(sb.Path("crs")); err != nil {
		panic(err)
	}
	args := []string{"-d", sb.Path("crs"), "-f", c.CfgName}
	if c.FFirst {
		args = []string{"-f", c.CfgName, "-d", sb.Path("crs")}
	}
	return cli.Run(cli.Opt{Dir: sb.Root, Stdin: c.Prog.MainText(), Timeout: 30 * time.Second}, append(args, "regex", "generate", "-")...)
}

var evasionPool = []string{`[\x5c'\"\[]*(?:\$[a-z0-9_@?!#{(*-]*)?(?:\x5c)?`, `(?:\x5c*)|(?:\^*)`, `(?:_)|(?:\^)?`, `[\"\^]*`, `x?`, `(?:\$[a-z]*)?`, `\s*`, `[\x5c'\"]*`, `(?:''|\x5c)?`, `_*`, ``, `\x5c|\^`, `''|""|_`, `\x5c*|\^*`, `'*|_?`}
var suffixPool = []string{`(?:\s|<|>).*`, `(?:\s)|(?:<.*)`, `[\s,;]`, `\s`, `(?:;|,|\s+)`, `[<>].*`, `$`, `\b`, `(?:\s.*)?`, ``, `\s|<|>`, `;|,`}
var noSpaceSuffixPool = []string{`(?:<|>).*`, `(?:<)|(?:>)`, `[,;]`, `[<>]`, `(?:[,;]\w*)`, `\d`, ``, `<|>`}

func yamlScalar(t *rapid.T, v string) string {
	if v == "" {
		return rapid.SampledFrom([]string{`""`, "''", "|\n"}).Draw(t, "emptyscalar")
	}
	switch rapid.IntRange(0, 3).Draw(t, "scalar") {
	case 0:
		return "'" + strings.ReplaceAll(v, "'", "''") + "'"
	case 1:
		// block scalar with extra surrounding blank space that must be trimmed
		return "|\n      " + v + "   \n"
	default:
		return "|\n      " + v + "\n"
	}
}

func genConfig(t *rapid.T) (*string, ragen.Config, bool, string) {
	kind := rapid.SampledFrom([]string{"crs", "crs", "custom", "custom", "custom", "partial", "empty", "absent", "invalid", "directory"}).Draw(t, "cfgkind")
	switch kind {
	case "crs":
		s, c := ragen.CRSLike()
		return s, c, false, kind
	case "empty":
		s := ""
		return &s, ragen.Config{}, false, kind
	case "absent":
		return nil, ragen.Config{}, false, kind
	case "invalid":
		// syntax errors, and files that parse as YAML but cannot be decoded because one entry has the wrong shape
		// while the others are well-formed (block scalars as in CRS): the file is unusable, nothing is inserted
		s := rapid.SampledFrom([]string{"patterns: [unclosed\n", "patterns:\n  anti_evasion:\n    unix: [1, 2\n", "\tpatterns: x\n", "patterns: 7\n",
			"patterns:\n  anti_evasion:\n    unix: |\n      [\\x5c'\\\"]*\n    windows: |\n      [\\\"\\^]*\n  anti_evasion_suffix: 'oops'\n  anti_evasion_no_space_suffix:\n    unix: |\n      (?:<|>).*\n    windows: |\n      [,;]\n",
			"patterns:\n  anti_evasion:\n    unix: 'Q*'\n    windows: [a, b]\n  anti_evasion_suffix:\n    unix: 'S'\n    windows: 'S'\n",
			"patterns:\n  anti_evasion:\n    unix: |\n      E*\n    windows: |\n      E*\n  anti_evasion_suffix:\n    unix:\n      nested: map\n    windows: |\n      S\n"}).Draw(t, "badyaml")
		return &s, ragen.Config{}, false, kind
	case "directory":
		return nil, ragen.Config{}, true, kind
	}
	var c ragen.Config
	c.Unix = ragen.CmdPatterns{Evasion: rapid.SampledFrom(evasionPool).Draw(t, "ue"), Suffix: rapid.SampledFrom(suffixPool).Draw(t, "us"), NoSpaceSuffix: rapid.SampledFrom(noSpaceSuffixPool).Draw(t, "un")}
	c.Windows = ragen.CmdPatterns{Evasion: rapid.SampledFrom(evasionPool).Draw(t, "we"), Suffix: rapid.SampledFrom(suffixPool).Draw(t, "ws"), NoSpaceSuffix: rapid.SampledFrom(noSpaceSuffixPool).Draw(t, "wn")}
	var sb strings.Builder
	// keys the tool does not know are ignored, they do not invalidate the file
	if rapid.IntRange(0, 3).Draw(t, "unknowntop") == 0 {
		sb.WriteString(rapid.SampledFrom([]string{"version: 1\n", "comment: \"anti evasion patterns\"\n", "x-anchors:\n  - &a foo\n"}).Draw(t, "unknowntopkey"))
	}
	sb.WriteString("patterns:\n")
	sec := func(name string, u, w *string) {
		skipU := kind == "partial" && rapid.IntRange(0, 2).Draw(t, "skipu") == 0
		skipW := kind == "partial" && rapid.IntRange(0, 2).Draw(t, "skipw") == 0
		if kind == "partial" && rapid.IntRange(0, 3).Draw(t, "skipsec") == 0 {
			*u, *w = "", ""
			return
		}
		sb.WriteString("  " + name + ":\n")
		if rapid.IntRange(0, 5).Draw(t, "unknownsub") == 0 {
			sb.WriteString("    powershell: \"[`]*\"\n")
		}
		if skipU {
			*u = ""
		} else {
			sb.WriteString("    unix: " + yamlScalar(t, *u))
			if !strings.HasSuffix(sb.String(), "\n") {
				sb.WriteString("\n")
			}
		}
		if skipW {
			*w = ""
		} else {
			sb.WriteString("    windows: " + yamlScalar(t, *w))
			if !strings.HasSuffix(sb.String(), "\n") {
				sb.WriteString("\n")
			}
		}
	}
	sec("anti_evasion", &c.Unix.Evasion, &c.Windows.Evasion)
	sec("anti_evasion_suffix", &c.Unix.Suffix, &c.Windows.Suffix)
	sec("anti_evasion_no_space_suffix", &c.Unix.NoSpaceSuffix, &c.Windows.NoSpaceSuffix)
	s := sb.String()
	return &s, c, false, kind
}

func genC04(t *rapid.T) C04Case {
	var cfgKind string
	var isDir bool
	pure := rapid.IntRange(0, 2).Draw(t, "pure") != 0
	o := ragen.GenOpt{
		Rx:       ragen.RxOpt{MaxDepth: 1, NoCasePairs: openFinding("D20")},
		MaxDepth: 2, MaxItems: 5, Flags: true, Cmdline: true, CmdLiteral: true, StoreLoad: true, NestInCmdline: true,
		ConfigGen: func(t *rapid.T) (*string, ragen.Config) {
			s, c, d, k := genConfig(t)
			cfgKind, isDir = k, d
			return s, c
		},
	}
	var g *ragen.Gen
	if pure {
		// a single cmdline block at top level
		g = &ragen.Gen{Prog: &ragen.Program{Files: map[string][]ragen.Line{}}, Labels: map[string]bool{}}
		g.Prog.Config, g.Cfg = o.ConfigGen(t)
		typ := rapid.SampledFrom([]string{"unix", "windows"}).Draw(t, "type")
		lines := []ragen.Line{}
		if rapid.IntRange(0, 3).Draw(t, "iflag") == 0 {
			lines = append(lines, ragen.Line{K: ragen.KFlags, T: "i"})
			g.Labels["flag-i"] = true
		}
		lines = append(lines, ragen.Line{K: ragen.KCStart, Cmd: typ})
		for n := rapid.IntRange(1, 5).Draw(t, "nwords"); n > 0; n-- {
			lines = append(lines, ragen.Line{K: ragen.KEntry, T: ragen.CmdWordGen(t), Ind: "  "})
		}
		lines = append(lines, ragen.Line{K: ragen.KEnd})
		g.Prog.Main = lines
		g.Labels["cmdline-block"] = true
		g.Labels["type:"+typ] = true
	} else {
		g = ragen.GenProgram(t, o)
	}
	g.Prog.ConfigIsDir = isDir
	g.Labels["config:"+cfgKind] = true
	c := C04Case{Prog: g.Prog, Cfg: g.Cfg, Seed: rapid.Uint64().Draw(t, "sampleseed"), Pure: pure}
	if rapid.IntRange(0, 3).Draw(t, "cfgname") == 0 {
		c.CfgName = rapid.SampledFrom([]string{"custom-config.yaml", "toolchain-test.yml", "cfg"}).Draw(t, "cfgnamev")
		c.FFirst = rapid.Bool().Draw(t, "ffirst")
		g.Labels["configuration-named-with-f"] = true
	}
	c.Lab = labelsOf(g.Labels)
	return c
}

func checkC04(c C04Case) Outcome {
	out := Outcome{Labels: c.Lab, Detail: map[string]any{}}
	res, err := c.Prog.Resolve(c.Prog.Main, ragen.ResolveOpt{ExpandInPrefixSuffix: true}, nil, 0)
	if err != nil {
		out.HarnessError = "generated program does not resolve: " + err.Error()
		return out
	}
	ref, err := ragen.Eval(res, c.Cfg)
	if err != nil {
		out.HarnessError = "no plain reading: " + err.Error()
		return out
	}
	r := runC04(c)
	out.Detail["program"] = c.Prog.MainText()
	out.Detail["cfg_name"], out.Detail["f_first"] = c.CfgName, c.FFirst
	if c.Prog.Config != nil {
		out.Detail["toolchain.yaml"] = *c.Prog.Config
	}
	out.Detail["reference"] = ref
	out.Detail["stdout"] = r.Stdout
	out.Detail["exit"] = r.Exit
	if r.Exit != 0 {
		out.Detail["stderr"] = tailLines(r.Stderr, 10)
		if openFinding("D23") && strings.Contains(r.Stderr, "invalid character class range") {
			out.ExcludedBy = "D23"
			return out
		}
		out.Violation = fmt.Sprintf("program with cmdline block does not compile (exit %d)", r.Exit)
		return out
	}
	// (1) exact: the documented transformation
	cmp := reqv.Compare(ref, r.Stdout, reqv.Options{SkipVT: true, MaxState: maxStates()})
	switch cmp.Verdict {
	case reqv.Error:
		if strings.HasPrefix(cmp.Err, "B:") {
			out.Violation = "output is not an RE2 expression: " + cmp.Err
			return out
		}
		out.HarnessError = fmt.Sprintf("oracle error: %s (ref %q out %q)", cmp.Err, ref, r.Stdout)
		return out
	case reqv.Different:
		out.Detail["witness"] = cmp.Witness
		predUndecided = false
		if openFinding("D17") && inD17Class(ref, r.Stdout) {
			out.ExcludedBy = "D17"
			return out
		}
		if openFinding("D30") && hasLabel(c.Lab, "flag-s") && inD30Class(ref, r.Stdout) {
			out.ExcludedBy = "D30"
			return out
		}
		if openFinding("D20") && !hasLabel(c.Lab, "flag-i") && inD20Class(ref, r.Stdout) {
			out.ExcludedBy = "D20"
			return out
		}
		side := "accepted by the generated regex but not by the documented transformation"
		if cmp.InA {
			side = "accepted by the documented transformation but not by the generated regex"
		}
		if predUndecided {
			out.Inconclusive = "known-finding class predicate hit the state cap"
			return out
		}
		out.Violation = fmt.Sprintf("language differs: %q is %s", cmp.Witness, side)
		return out
	case reqv.Inconclusive:
		out.Inconclusive = "state-cap"
	}
	// (2) membership as the property phrases it, for pure cmdline programs: every word with evasion
	// strings drawn from the configured pattern's language interleaved must be matched
	probes := 0
	if c.Pure {
		sm := reqv.NewSampler(c.Seed)
		var pt ragen.CmdPatterns
		fold := false
		for _, l := range res.Body {
			if l.K == ragen.KCStart {
				if l.Cmd == "unix" {
					pt = c.Cfg.Unix
				} else {
					pt = c.Cfg.Windows
				}
			}
		}
		fold = res.Flags['i']
		for _, l := range res.Body {
			if l.K != ragen.KEntry || strings.HasPrefix(l.T, "'") {
				continue
			}
			for rep := 0; rep < 4; rep++ {
				// the bare word is a variant only if the evasion pattern matches the empty text
				plain := rep == 0 && nullable(pt.Evasion)
				s, ok := cmdVariant(l.T, pt, sm, fold, plain)
				if !ok {
					continue
				}
				probes++
				m, err := reqv.FullMatch(r.Stdout, s)
				if err != nil {
					out.Violation = "output is not an RE2 expression: " + err.Error()
					return out
				}
				if !m {
					out.Detail["word"] = l.T
					out.Detail["variant"] = s
					out.Violation = fmt.Sprintf("command word %q with anti-evasion text interleaved (%q) is not matched", l.T, s)
					return out
				}
			}
		}
	}
	out.Labels = append(out.Labels, "verdict:"+cmp.Verdict.String())
	hasMarkerOrPattern := false
	for _, l := range res.Body {
		if l.K == ragen.KEntry && (strings.HasSuffix(l.T, "@") || strings.HasSuffix(l.T, "~")) {
			hasMarkerOrPattern = true
		}
	}
	if c.Cfg.Unix.Evasion != "" || c.Cfg.Windows.Evasion != "" {
		hasMarkerOrPattern = true
	}
	out.NonTrivial = hasLabel(c.Lab, "cmdline-block") && hasMarkerOrPattern && cmp.Verdict == reqv.Equal
	out.Key = c.Prog.Canon()
	out.Sample = map[string]any{"program": c.Prog.MainText(), "generated": clip(r.Stdout, 240), "membership_probes": probes, "verdict": cmp.Verdict.String()}
	return out
}

// cmdVariant builds the word with evasion strings inserted at every gap (and the suffix when a
// marker demands one), independently of the reference regex. plain = no evasion text at all.
func nullable(pattern string) bool {
	if pattern == "" {
		return true
	}
	m, err := reqv.FullMatch(pattern, "")
	return err == nil && m
}

func cmdVariant(word string, pt ragen.CmdPatterns, sm *reqv.Sampler, fold, plain bool) (string, bool) {
	stripped, suffix := word, ""
	n := len(word)
	if n >= 2 {
		switch {
		case strings.HasSuffix(word, `\@`) || strings.HasSuffix(word, `\~`):
			stripped = word[:n-2] + word[n-1:]
		case word[n-1] == '@':
			stripped, suffix = word[:n-1], pt.Suffix
		case word[n-1] == '~':
			stripped, suffix = word[:n-1], pt.NoSpaceSuffix
		}
		// `foo\@@`: the marker is taken off, what remains ends in an escaped marker character that stays
		if len(stripped) == n-1 && (strings.HasSuffix(stripped, `\@`) || strings.HasSuffix(stripped, `\~`)) {
			m := len(stripped)
			stripped = stripped[:m-2] + stripped[m-1:]
		}
	}
	var sb strings.Builder
	ev := func() bool {
		if plain || pt.Evasion == "" {
			return true
		}
		s, ok := sm.Sample(pt.Evasion)
		if !ok {
			return false
		}
		sb.WriteString(s)
		return true
	}
	// between any two adjacent characters (not bytes) of the word
	for i, ch := range stripped {
		if i > 0 && !ev() {
			return "", false
		}
		switch {
		case ch == ' ':
			sb.WriteString([]string{" ", "  ", "\t", " \t "}[sm.Intn(4)])
		case fold && ch >= 'a' && ch <= 'z' && sm.Intn(3) == 0:
			sb.WriteRune(ch - 32)
		default:
			sb.WriteRune(ch)
		}
	}
	if suffix != "" {
		if !ev() {
			return "", false
		}
		s, ok := sm.Sample(suffix)
		if !ok {
			return "", false
		}
		sb.WriteString(s)
	}
	return sb.String(), true
}

func TestC04(t *testing.T) { RunProp(t, "C04", genC04, checkC04) }
