package props

import (
	"fmt"
	"os"
	"strings"
	"testing"
	"time"

	"pgregory.net/rapid"

	"verifharness/cli"
)

// C10 — format never changes what a file means or says.

func genC10(t *rapid.T) FmtCase { return genFmtCase(t, true) }

func stripWS(s string) string {
	return strings.Map(func(r rune) rune {
		if r == ' ' || r == '\t' || r == '\r' {
			return -1
		}
		return r
	}, s)
}

// lineSeq is the sequence of lines with white space disregarded, without trailing blank lines.
func lineSeq(content string) []string {
	ls := strings.Split(strings.ReplaceAll(content, "\r\n", "\n"), "\n")
	out := make([]string, 0, len(ls))
	for _, l := range ls {
		out = append(out, stripWS(l))
	}
	for len(out) > 0 && out[len(out)-1] == "" {
		out = out[:len(out)-1]
	}
	return out
}

var headerSeq = []string{stripWS("##! Please refer to the documentation at"), stripWS("##! https://coreruleset.org/docs/development/regex_assembly/."), ""}

func checkC10(c FmtCase) Outcome {
	out := Outcome{Labels: append([]string{"kind:" + c.Kind}, c.Lab...), Detail: map[string]any{}}
	content := c.Content()
	sb := cli.NewSandbox("c10")
	defer sb.Close()
	tree := cli.Tree{c.FileRel(): content, "rules/": ""}
	for n, v := range c.Files {
		tree["regex-assembly/"+n] = v
	}
	c.Sibling(tree)
	if c.Target != "" {
		out.Labels = append(out.Labels, "target:"+c.Target)
	}
	root := sb.Path("crs")
	if err := tree.Write(root); err != nil {
		panic(err)
	}
	file := sb.Path("crs/" + c.FileRel())
	gen := func(stdin *string) cli.Result {
		if stdin != nil {
			return cli.Run(cli.Opt{Dir: sb.Root, Stdin: *stdin, Timeout: 30 * time.Second}, "-d", root, "regex", "generate", "-")
		}
		return cli.Run(cli.Opt{Dir: sb.Root, Timeout: 30 * time.Second}, "-d", root, "regex", "generate", c.Arg())
	}
	out.Detail["original"] = content
	g0 := gen(nil)
	// generate must itself be deterministic here, otherwise the comparison is meaningless (that is C03's subject)
	for i := 0; i < 2; i++ {
		if g := gen(nil); g.Stdout != g0.Stdout || g.Exit != g0.Exit {
			out.Labels = append(out.Labels, "generate-nondeterministic")
			out.Inconclusive = "generate is nondeterministic on this file (C03)"
			return out
		}
	}
	s0 := gen(&content)
	f := cli.Run(cli.Opt{Dir: sb.Root, Timeout: 30 * time.Second}, append(c.Global(root), "regex", "format", c.Arg())...)
	b, _ := os.ReadFile(file)
	formatted := string(b)
	out.Detail["formatted"], out.Detail["format_exit"] = formatted, f.Exit
	if f.Exit != 0 {
		out.Labels = append(out.Labels, "format-fails")
		if formatted != content {
			out.Violation = fmt.Sprintf("format exited %d but changed the file", f.Exit)
			return out
		}
		out.NonTrivial = true
		out.Key = content
		out.Sample = map[string]any{"content": clip(content, 300), "format_exit": f.Exit}
		return out
	}
	g1 := gen(nil)
	s1 := gen(&formatted)
	out.Detail["generate_before"], out.Detail["generate_before_exit"] = g0.Stdout, g0.Exit
	out.Detail["generate_after"], out.Detail["generate_after_exit"] = g1.Stdout, g1.Exit
	if (g0.Exit == 0) != (g1.Exit == 0) {
		out.Detail["stderr_before"], out.Detail["stderr_after"] = tailLines(g0.Stderr, 5), tailLines(g1.Stderr, 5)
		out.Violation = fmt.Sprintf("generate exits %d before format and %d after", g0.Exit, g1.Exit)
		return out
	}
	if g0.Stdout != g1.Stdout {
		out.Violation = "generate gives a different regex after format"
		return out
	}
	if (s0.Exit == 0) != (s1.Exit == 0) || s0.Stdout != s1.Stdout {
		out.Detail["stdin_before"], out.Detail["stdin_after"] = s0.Stdout, s1.Stdout
		out.Violation = "generate from stdin differs before and after format"
		return out
	}
	// the sequence of lines with white space disregarded
	before, after := lineSeq(content), lineSeq(formatted)
	// the formatter recognises the header only as its two lines followed by an empty line
	raw := strings.Split(strings.TrimSuffix(strings.ReplaceAll(content, "\r\n", "\n"), "\n"), "\n")
	if content == "" {
		raw = nil
	}
	hb := len(raw) >= 3 && stripWS(raw[0]) == headerSeq[0] && stripWS(raw[1]) == headerSeq[1] && stripWS(raw[2]) == ""
	if !hb {
		if len(after) < 2 || after[0] != headerSeq[0] || after[1] != headerSeq[1] {
			out.Violation = "formatted file lacks the header"
			return out
		}
		after = after[2:]
		if len(after) > 0 && after[0] == "" {
			after = after[1:]
		}
	}
	if strings.Join(before, "\n") != strings.Join(after, "\n") {
		for i := 0; i < len(before) || i < len(after); i++ {
			var x, y string
			if i < len(before) {
				x = before[i]
			}
			if i < len(after) {
				y = after[i]
			}
			if x != y {
				out.Detail["first_difference"] = fmt.Sprintf("line %d: before %q after %q", i+1, x, y)
				break
			}
		}
		out.Violation = "format changed more than white space: the line sequence differs"
		return out
	}
	out.NonTrivial = c.Kind != "boundary" && (hasLabel(c.Lab, "nested-assemble") || hasLabel(c.Lab, "cmdline-block") || hasLabel(c.Lab, "disagreement-line") || hasLabel(c.Lab, "raw") || hasLabel(c.Lab, "include") || hasLabel(c.Lab, "defs"))
	if g0.Exit == 0 {
		out.Labels = append(out.Labels, "generate-ok")
	} else {
		out.Labels = append(out.Labels, "generate-fails-both")
	}
	out.Key = content
	out.Sample = map[string]any{"kind": c.Kind, "content": clip(content, 300), "generate_exit": g0.Exit, "generated": clip(g0.Stdout, 120)}
	return out
}

func TestC10(t *testing.T) { RunProp(t, "C10", genC10, checkC10) }
