package props

import (
	"fmt"
	"sort"
	"strings"
	"testing"
	"time"

	"pgregory.net/rapid"

	"verifharness/cli"
	"verifharness/ragen"
)

// C03 — same files and configuration always give byte-identical output.

type C03Case struct {
	Prog *ragen.Program `json:"prog"`
	Mode string         `json:"mode"` // generate-stdin | generate-id | format | update | compare | update-all | compare-all | format-all
	K    int            `json:"k"`
	Lab  []string       `json:"labels,omitempty"`
	// VaryCwd: odd runs start in another working directory, one that holds its own toolchain.yaml and a
	// regex-assembly directory with same-named files; the root is always given with -d, so nothing there counts
	VaryCwd bool `json:"vary_cwd,omitempty"`
}

const c03Rules = `# OWASP CRS ver.4.0.0
SecRule ARGS "@rx old" \
    "id:932100,\
    phase:2,\
    t:none"
SecRule ARGS "@rx other" \
    "id:932200,\
    phase:2,\
    t:none"
`

func genC03(t *rapid.T) C03Case {
	o := ragen.GenOpt{
		Rx:       ragen.RxOpt{Stress: 5, MaxDepth: 1},
		MaxDepth: 2, MaxItems: 6, Flags: true, PrefixSuffix: true, Defs: true, DefsInPS: true,
		Includes: true, Excepts: true, Pairs: true, IncludeDefs: true, IncludePS: true, Cmdline: true, StoreLoad: true, Noise: true, TrailWS: true,
	}
	g := ragen.GenProgram(t, o)
	lab := g.Labels
	// ambiguous lines: more than one directive pattern can claim them
	if rapid.IntRange(0, 2).Draw(t, "ambig") == 0 {
		file := "f0"
		if _, ok := g.Prog.Files["include/f0.ra"]; !ok {
			if _, ok2 := g.Prog.Files["exclude/f0.ra"]; !ok2 {
				file = rapid.SampledFrom([]string{"f0", "nosuchfile"}).Draw(t, "afile")
			}
		}
		raw := rapid.SampledFrom([]string{
			"##! see ##!> include %s",
			"##! was: ##!> include %s -- a b",
			"##!^ p##!> include %s",
			"##!$ q ##!> include %s",
			"##! ##!> include-except %s f1",
			"##! + is not a flag line, %s",
			"##! ^ is not a prefix line, %s",
			"##! $ is not a suffix line, %s",
			"##! > include %s",
			"##! < %s",
			"##! = > %s",
		}).Draw(t, "ambigline")
		pos := rapid.IntRange(0, len(g.Prog.Main)).Draw(t, "apos")
		l := ragen.Line{K: ragen.KRaw, T: fmt.Sprintf(raw, file)}
		g.Prog.Main = append(g.Prog.Main[:pos], append([]ragen.Line{l}, g.Prog.Main[pos:]...)...)
		lab["ambiguous-line"] = true
	}
	// several exclude files that define the same name differently and use it to spell their entries:
	// the order in which they are read must not matter
	if rapid.IntRange(0, 3).Draw(t, "exdefs") == 0 {
		g.Prog.Files["include/wl.ra"] = []ragen.Line{{K: ragen.KEntry, T: "alpha"}, {K: ragen.KEntry, T: "beta"}, {K: ragen.KEntry, T: "gamma"}, {K: ragen.KEntry, T: "delta"}}
		vals := rapid.Permutation([]string{"alpha", "beta", "gamma", "delta"}).Draw(t, "exvals")
		nx := rapid.IntRange(2, 4).Draw(t, "nexdefs")
		var ex []string
		for i := 0; i < nx; i++ {
			n := fmt.Sprintf("xd%d", i)
			g.Prog.Files["exclude/"+n+".ra"] = []ragen.Line{{K: ragen.KDefine, Name: "word", T: vals[i]}, {K: ragen.KEntry, T: "{{word}}"}}
			ex = append(ex, n)
		}
		g.Prog.Main = append(g.Prog.Main, ragen.Line{K: ragen.KExcept, File: "wl", Excl: ex})
		lab["exclude-files-with-same-definition-name"] = true
		lab["include-except"] = true
	}
	// definitions whose expansion order is visible in the result: a value that completes a reference only after
	// another expansion, definitions that refer to each other, a reference to a name defined later
	if rapid.IntRange(0, 4).Draw(t, "orderdefs") == 0 {
		set := rapid.SampledFrom([][]string{
			{"##!> define a {{", "##!> define b x", "{{a}}b}}"},
			{"##!> define a {{b}}1", "##!> define b {{a}}2", "x{{a}}y{{b}}"},
			{"##!> define p {{q}}{{r}}", "##!> define q {{r}}-", "##!> define r z", "{{p}}|{{q}}"},
			{"##!> define o }}", "##!> define i {{x", "##!> define x y", "{{i}}{{o}}"},
			{"##!> define s {{s}}s", "{{s}}"},
		}).Draw(t, "orderdefset")
		for _, l := range set {
			g.Prog.Main = append(g.Prog.Main, ragen.Line{K: ragen.KRaw, T: l})
		}
		lab["definitions-whose-expansion-order-shows"] = true
	}
	// the same file name in include/ and in exclude/ with different content: the documented search order decides, every time
	if rapid.IntRange(0, 3).Draw(t, "shadow") == 0 {
		var names []string
		for n := range g.Prog.Files {
			names = append(names, n)
		}
		sort.Strings(names)
		if len(names) > 0 {
			n := rapid.SampledFrom(names).Draw(t, "shadowed")
			other := "exclude/" + strings.TrimPrefix(n, "include/")
			if strings.HasPrefix(n, "exclude/") {
				other = "include/" + strings.TrimPrefix(n, "exclude/")
			}
			if _, taken := g.Prog.Files[other]; !taken {
				g.Prog.Files[other] = []ragen.Line{{K: ragen.KEntry, T: "shadow"}, {K: ragen.KEntry, T: "shade"}}
			}
		} else {
			g.Prog.Files["include/twin.ra"] = []ragen.Line{{K: ragen.KEntry, T: "from-include"}, {K: ragen.KEntry, T: "common"}}
			g.Prog.Files["exclude/twin.ra"] = []ragen.Line{{K: ragen.KEntry, T: "from-exclude"}, {K: ragen.KEntry, T: "common"}}
			g.Prog.Main = append(g.Prog.Main, ragen.Line{K: ragen.KInclude, File: "twin"})
		}
		lab["same-name-in-include-and-exclude"] = true
	}
	vary := rapid.IntRange(0, 2).Draw(t, "varycwd") == 0
	if vary && rapid.Bool().Draw(t, "noconfig") {
		// no toolchain.yaml below the root: nothing is inserted in cmdline blocks, wherever the process starts
		g.Prog.Config, g.Prog.ConfigIsDir = nil, false
		lab["no-configuration-file"] = true
	}
	if vary {
		lab["working-directory-varies"] = true
	}
	// a second, independent assembly file for the --all modes is added by the check
	mode := rapid.SampledFrom([]string{"generate-stdin", "generate-stdin", "generate-id", "format", "update", "compare", "update-all", "compare-all", "format-all", "format-check", "format-check-all", "format-check-all-github"}).Draw(t, "mode")
	k := 6
	if thorough() {
		k = 16
	}
	return C03Case{Prog: g.Prog, Mode: mode, K: k, Lab: labelsOf(lab), VaryCwd: vary}
}

type c03Obs struct {
	Stdout string
	Exit   int
	Tree   string
}

const c03DecoyConfig = "patterns:\n  anti_evasion:\n    unix: DECOY*\n    windows: DECOY*\n  anti_evasion_suffix:\n    unix: DECOYS\n    windows: DECOYS\n  anti_evasion_no_space_suffix:\n    unix: DECOYN\n    windows: DECOYN\n"

func c03Run(c C03Case, run int) c03Obs {
	sb := cli.NewSandbox("c03")
	defer sb.Close()
	tree := cli.Tree(c.Prog.Tree())
	tree["regex-assembly/932100.ra"] = c.Prog.MainText()
	tree["regex-assembly/932200.ra"] = "##! second file\nfoo\nbar\n"
	tree["regex-assembly/941100.ra"] = "  unformatted\n"
	tree["regex-assembly/942100.ra"] = "\tunformatted too\n\n\n"
	tree["regex-assembly/include/zz-unformatted.ra"] = "   x\n"
	tree["rules/REQUEST-932-APPLICATION-ATTACK-RCE.conf"] = c03Rules
	root := sb.Path("crs")
	if err := tree.Write(root); err != nil {
		panic(err)
	}
	cwd := sb.Root
	if c.VaryCwd && run%2 == 1 {
		// another checkout's regex-assembly directory: its own configuration and same-named word lists
		decoy := cli.Tree{"toolchain.yaml": c03DecoyConfig, "regex-assembly/toolchain.yaml": c03DecoyConfig, "932100.ra": "decoy\n", "include/": "", "exclude/": ""}
		for n := range c.Prog.Files {
			decoy[n] = "decoy-entry\n"
			decoy["regex-assembly/"+n] = "decoy-entry\n"
		}
		if err := decoy.Write(sb.Path("elsewhere")); err != nil {
			panic(err)
		}
		cwd = sb.Path("elsewhere")
	}
	cli.Freeze(root)
	var args []string
	stdin := ""
	switch c.Mode {
	case "generate-stdin":
		args, stdin = []string{"regex", "generate", "-"}, c.Prog.MainText()
	case "generate-id":
		args = []string{"regex", "generate", "932100"}
	case "format":
		args = []string{"regex", "format", "932100"}
	case "format-check":
		args = []string{"regex", "format", "--check", "932100"}
	case "format-all":
		args = []string{"regex", "format", "--all"}
	case "format-check-all":
		args = []string{"regex", "format", "--check", "--all"}
	case "format-check-all-github":
		args = []string{"-o", "github", "regex", "format", "--check", "--all"}
	case "update":
		args = []string{"regex", "update", "932100"}
	case "update-all":
		args = []string{"regex", "update", "--all"}
	case "compare":
		args = []string{"regex", "compare", "932100"}
	case "compare-all":
		args = []string{"regex", "compare", "--all"}
	}
	pieces := 0
	if c.Mode == "generate-stdin" && run%2 == 1 {
		// the same text, arriving through the pipe in two or three pieces
		pieces = 2 + run%3%2
	}
	r := cli.Run(cli.Opt{Dir: cwd, Stdin: stdin, StdinPieces: pieces, Timeout: 30 * time.Second}, append([]string{"-d", root}, args...)...)
	// tree content (paths + bytes), independent of the sandbox location
	t := cli.ReadTree(root)
	names := make([]string, 0, len(t))
	for n := range t {
		names = append(names, n)
	}
	sort.Strings(names)
	var tb strings.Builder
	for _, n := range names {
		tb.WriteString(n + "\x00" + t[n] + "\x00")
	}
	return c03Obs{Stdout: r.Stdout, Exit: r.Exit, Tree: tb.String()}
}

func checkC03(c C03Case) Outcome {
	out := Outcome{Labels: append([]string{"mode:" + c.Mode}, c.Lab...), Detail: map[string]any{}}
	k := c.K
	if k < 2 {
		k = 2
	}
	first := c03Run(c, 0)
	for i := 1; i < k; i++ {
		o := c03Run(c, i)
		if o != first {
			what := "stdout"
			switch {
			case o.Exit != first.Exit:
				what = fmt.Sprintf("exit status (%d vs %d)", first.Exit, o.Exit)
			case o.Stdout != first.Stdout:
				what = "stdout"
			default:
				what = "bytes of the resulting tree"
			}
			out.Detail["program"] = c.Prog.MainText()
			out.Detail["run0_stdout"], out.Detail["run0_exit"] = clip(first.Stdout, 600), first.Exit
			out.Detail["runN_stdout"], out.Detail["runN_exit"], out.Detail["n"] = clip(o.Stdout, 600), o.Exit, i
			out.Violation = fmt.Sprintf("run %d of `%s` differs from run 0 in %s on identical inputs", i, c.Mode, what)
			return out
		}
	}
	mapDriven := false
	for _, l := range c.Lab {
		switch l {
		case "suffix-pairs", "defs", "include-except", "ambiguous-line", "def-nested", "exclude-files-with-same-definition-name", "definitions-whose-expansion-order-shows":
			mapDriven = true
		}
	}
	out.NonTrivial = mapDriven
	out.Key = c.Mode + "\x00" + c.Prog.Canon()
	out.Sample = map[string]any{"mode": c.Mode, "program": c.Prog.MainText(), "runs": k, "exit": first.Exit, "stdout": clip(first.Stdout, 200)}
	return out
}

func TestC03(t *testing.T) { RunProp(t, "C03", genC03, checkC03) }
