package props

import (
	"fmt"
	"testing"

	"pgregory.net/rapid"

	"verifharness/ragen"
)

// C07 — definitions are pure textual substitution, independent of their order.

type C07Case struct {
	Prog *ragen.Program `json:"prog"`
	Perm *ragen.Program `json:"perm"` // same program with the definition lines moved
	K    int            `json:"k"`
	Lab  []string       `json:"labels,omitempty"`
}

func genC07(t *rapid.T) C07Case {
	o := ragen.GenOpt{
		Rx:       ragen.RxOpt{Stress: 5, MaxDepth: 1},
		MaxDepth: 2, MaxItems: 6, Flags: true, PrefixSuffix: true, Defs: true, DefsInPS: true,
		Includes: true, Cmdline: false, StoreLoad: true, Noise: true, TrailWS: true,
	}
	var g *ragen.Gen
	for try := 0; ; try++ {
		g = ragen.GenProgram(t, o)
		if g.Labels["defs"] || try == 3 {
			break
		}
	}
	lab := g.Labels
	// undefined reference: must stay literal text
	if rapid.IntRange(0, 3).Draw(t, "undef") == 0 {
		g.Prog.Main = append(g.Prog.Main, ragen.Line{K: ragen.KEntry, T: "u{{undefined-name}}v"})
		lab["undefined-reference"] = true
	}
	// a definition whose value mentions a name nobody defines: the value is typed in place, the inner reference stays literal
	if rapid.IntRange(0, 3).Draw(t, "undefinner") == 0 {
		g.Prog.Main = append([]ragen.Line{{K: ragen.KDefine, Name: "holed", T: "x{{nodef-inner}}[0-9]"}}, g.Prog.Main...)
		g.Prog.Main = append(g.Prog.Main, ragen.Line{K: ragen.KEntry, T: "k={{holed}}"})
		lab["undefined-reference-inside-definition"] = true
	}
	// a value that uses another definition more than once
	if rapid.IntRange(0, 3).Draw(t, "multiref") == 0 {
		g.Prog.Main = append([]ragen.Line{{K: ragen.KDefine, Name: "aa1", T: "[0-9]{1,3}"}, {K: ragen.KDefine, Name: "zz9", T: `{{aa1}}\.{{aa1}}\.{{aa1}}`}, {K: ragen.KDefine, Name: "a0", T: "{{zz9}}-{{zz9}}"}}, g.Prog.Main...)
		g.Prog.Main = append(g.Prog.Main, ragen.Line{K: ragen.KEntry, T: "ip={{zz9}}"}, ragen.Line{K: ragen.KEntry, T: "range={{a0}}"})
		lab["definition-used-several-times-in-one-value"] = true
	}
	// references inside included text are expanded with the including file's definitions
	var defNames []string
	for _, l := range g.Prog.Main {
		if l.K == ragen.KDefine {
			defNames = append(defNames, l.Name)
		}
	}
	if len(defNames) > 0 && rapid.IntRange(0, 2).Draw(t, "incref") == 0 {
		d := rapid.SampledFrom(defNames).Draw(t, "increfd")
		g.Prog.Files["include/refs.ra"] = []ragen.Line{{K: ragen.KEntry, T: "inc{{" + d + "}}"}, {K: ragen.KEntry, T: "plain"}}
		g.Prog.Main = append(g.Prog.Main, ragen.Line{K: ragen.KInclude, File: "refs"})
		lab["reference-in-included-text"] = true
	}
	// an included file that defines a name of the including file differently: each file keeps its own meaning
	if len(defNames) > 0 && rapid.IntRange(0, 2).Draw(t, "collide") == 0 {
		d := rapid.SampledFrom(defNames).Draw(t, "collided")
		g.Prog.Files["include/owndefs.ra"] = []ragen.Line{{K: ragen.KDefine, Name: d, T: "own[0-9]"}, {K: ragen.KDefine, Name: "onlyhere", T: "y+"}, {K: ragen.KEntry, T: "inc2{{" + d + "}}{{onlyhere}}"}}
		pos := rapid.IntRange(0, len(g.Prog.Main)).Draw(t, "collidepos")
		if pos != 0 {
			pos = len(g.Prog.Main)
		}
		g.Prog.Main = append(g.Prog.Main[:pos], append([]ragen.Line{{K: ragen.KInclude, File: "owndefs"}}, g.Prog.Main[pos:]...)...)
		g.Prog.Main = append(g.Prog.Main, ragen.Line{K: ragen.KEntry, T: "main{{onlyhere}}"})
		lab["include-redefines-name"] = true
	}
	// permutation: take the define lines out and put each back at a drawn position (top level or inside blocks)
	var rest, defs []ragen.Line
	for _, l := range g.Prog.Main {
		if l.K == ragen.KDefine {
			defs = append(defs, l)
		} else {
			rest = append(rest, l)
		}
	}
	perm := append([]ragen.Line{}, rest...)
	order := rapid.Permutation(defs).Draw(t, "deforder")
	for _, d := range order {
		pos := rapid.IntRange(0, len(perm)).Draw(t, "defpos")
		perm = append(perm[:pos], append([]ragen.Line{d}, perm[pos:]...)...)
	}
	pp := &ragen.Program{Main: perm, Files: g.Prog.Files, Config: g.Prog.Config}
	k := 3
	if thorough() {
		k = 6
	}
	return C07Case{Prog: g.Prog, Perm: pp, K: k, Lab: labelsOf(lab)}
}

func checkC07(c C07Case) Outcome {
	out := Outcome{Labels: c.Lab, Detail: map[string]any{}}
	exp, err := c.Prog.Inlined(ragen.ResolveOpt{ExpandInPrefixSuffix: true, PairMode: "seq"})
	if err != nil {
		out.HarnessError = "cannot expand: " + err.Error()
		return out
	}
	a := generate(c.Prog)
	out.Detail["program"] = c.Prog.MainText()
	out.Detail["expanded_by_hand"] = exp.MainText()
	out.Detail["out"], out.Detail["exit"] = a.Stdout, a.Exit
	for i := 1; i < c.K; i++ {
		r := generate(c.Prog)
		if r.Stdout != a.Stdout || r.Exit != a.Exit {
			out.Detail["run_n"] = r.Stdout
			out.Violation = fmt.Sprintf("run %d gives a different result than run 0 (substitution order is map driven)", i)
			return out
		}
	}
	b := generate(exp)
	out.Detail["out_expanded"], out.Detail["exit_expanded"] = b.Stdout, b.Exit
	if a.Exit != b.Exit || a.Stdout != b.Stdout {
		out.Detail["stderr"] = tailLines(a.Stderr, 6)
		out.Violation = "generate differs between the program with definitions and the program with every reference replaced by hand"
		return out
	}
	p := generate(c.Perm)
	out.Detail["permuted"] = c.Perm.MainText()
	out.Detail["out_permuted"], out.Detail["exit_permuted"] = p.Stdout, p.Exit
	if p.Exit != a.Exit || p.Stdout != a.Stdout {
		out.Violation = "generate differs after moving the definition lines to other positions"
		return out
	}
	// undefined names stay literal text. Asked of a probe that holds the file's definition lines and the one
	// entry only: in the full output the optimiser may factor the literal apart (`(?:z[0-9]|k=x\{\{nodef-inner\})\}[0-9]`),
	// a substring test there would be unsound
	probe := func(entry, want string) string {
		var lines []ragen.Line
		for _, l := range c.Prog.Main {
			if l.K == ragen.KDefine {
				lines = append(lines, ragen.Line{K: ragen.KDefine, Name: l.Name, T: l.T})
			}
		}
		lines = append(lines, ragen.Line{K: ragen.KEntry, T: entry})
		r := generate(&ragen.Program{Main: lines, Files: map[string][]ragen.Line{}, Config: c.Prog.Config})
		if r.Exit != 0 || r.Stdout != want {
			out.Detail["probe"], out.Detail["probe_out"], out.Detail["probe_exit"], out.Detail["probe_want"] = ragen.Print(lines, "\n", true), r.Stdout, r.Exit, want
			return fmt.Sprintf("with the file's definitions, entry `%s` generates %q, not the literal %q", entry, r.Stdout, want)
		}
		return ""
	}
	if hasLabel(c.Lab, "undefined-reference-inside-definition") && a.Exit == 0 {
		if v := probe("k={{holed}}", `k=x\{\{nodef-inner\}\}[0-9]`); v != "" {
			out.Violation = "a reference to an undefined name inside a definition's value did not stay literal text: " + v
			return out
		}
	}
	if hasLabel(c.Lab, "undefined-reference") && a.Exit == 0 {
		if v := probe("u{{undefined-name}}v", `u\{\{undefined-name\}\}v`); v != "" {
			out.Violation = "a reference to an undefined name did not stay literal text: " + v
			return out
		}
	}
	nd := 0
	for _, l := range c.Prog.Main {
		if l.K == ragen.KDefine {
			nd++
		}
	}
	out.Labels = append(out.Labels, fmt.Sprintf("definitions:%d", nd))
	out.NonTrivial = a.Exit == 0 && ((nd >= 2 && hasLabel(c.Lab, "def-nested")) || hasLabel(c.Lab, "def-ref-in-prefix-suffix") || hasLabel(c.Lab, "reference-in-included-text") || (nd >= 1 && hasLabel(c.Lab, "nested-assemble") && hasLabel(c.Lab, "def-ref")))
	out.Key = c.Prog.Canon() + "\x00" + c.Perm.MainText()
	out.Sample = map[string]any{"program": c.Prog.MainText(), "permuted": c.Perm.MainText(), "generated": clip(a.Stdout, 200)}
	return out
}

func TestC07(t *testing.T) { RunProp(t, "C07", genC07, checkC07) }
