package props

import (
	"encoding/json"
	"fmt"
	"os"
	"path/filepath"
	"strconv"
	"testing"
	"time"

	"pgregory.net/rapid"

	"verifharness/stats"
)

// Outcome is what one evaluation of a property on one concrete case produced.
type Outcome struct {
	Violation    string         // "" = the property held on this case
	Detail       map[string]any // observations kept in the replay file
	NonTrivial   bool
	Key          string   // canonical form of the case (distinctness); "" = JSON of the case
	Labels       []string // classes the case belongs to (generator distribution)
	Sample       any      // compact rendering for the evidence samples; nil = the case itself
	ExcludedBy   string   // key of the open known finding whose class this case falls in (not judged)
	Inconclusive string   // non-empty: budget/cap hit, case not decided
	HarnessError string   // non-empty: the harness itself is broken (exit 2)
}

type replayFile struct {
	Property  string          `json:"property"`
	Violation string          `json:"violation"`
	Case      json.RawMessage `json:"case"`
	Detail    map[string]any  `json:"detail,omitempty"`
	Note      string          `json:"note,omitempty"`
}

type knownFinding struct {
	Property  string `json:"property"`
	Key       string `json:"key"`
	Status    string `json:"status"` // open | fixed
	What      string `json:"what"`
	Predicate string `json:"predicate,omitempty"`
	Witness   string `json:"witness"`
	Commit    string `json:"commit,omitempty"`
}

func verifRoot() string {
	if r := os.Getenv("VERIF_ROOT"); r != "" {
		return r
	}
	return "/verif"
}

var knownCache []knownFinding
var knownLoaded bool

func loadKnown() []knownFinding {
	if knownLoaded {
		return knownCache
	}
	knownLoaded = true
	b, err := os.ReadFile(filepath.Join(verifRoot(), "known_findings.json"))
	if err != nil {
		return nil
	}
	var f struct {
		Findings []knownFinding `json:"findings"`
	}
	if err := json.Unmarshal(b, &f); err != nil {
		panic("known_findings.json: " + err.Error())
	}
	knownCache = f.Findings
	return knownCache
}

// openFinding reports whether key is listed as an *open* finding: only then may a check exclude
// the finding's input class.
func openFinding(key string) bool {
	for _, k := range loadKnown() {
		if k.Key == key && k.Status == "open" {
			return true
		}
	}
	return false
}

func tier() string {
	if t := os.Getenv("VERIF_TIER"); t != "" {
		return t
	}
	return "quick"
}

func thorough() bool { return tier() == "thorough" }

func envInt(name string, def int) int {
	if v := os.Getenv(name); v != "" {
		if n, err := strconv.Atoi(v); err == nil {
			return n
		}
	}
	return def
}

var deadline = func() time.Time {
	if v := os.Getenv("VERIF_DEADLINE_UNIX"); v != "" {
		if n, err := strconv.ParseInt(v, 10, 64); err == nil {
			return time.Unix(n, 0)
		}
	}
	return time.Now().Add(24 * time.Hour)
}()

// RunProp drives one property: replay mode, known-witness replay, then generated search.
func RunProp[C any](t *testing.T, id string, gen func(*rapid.T) C, check func(C) Outcome) {
	if in := os.Getenv("VERIF_REPLAY_IN"); in != "" {
		replayOne(t, id, in, check)
		return
	}
	shard := envInt("VERIF_SHARD", 0)
	requested := envInt("VERIF_CASES", 100)
	rec := stats.New(id, shard, uint64(envInt("VERIF_RAPID_SEED", 0)), requested, os.Getenv("VERIF_STATS_FILE"))
	defer rec.Flush()
	replayOut := os.Getenv("VERIF_REPLAY_OUT")

	if shard == 0 {
		for _, k := range loadKnown() {
			if k.Property != id {
				continue
			}
			kr := stats.KnownResult{Key: k.Key, Status: k.Status, Witness: k.Witness, What: k.What}
			c, err := loadCase[C](filepath.Join(verifRoot(), k.Witness), id)
			if err != nil {
				rec.HarnessError(fmt.Sprintf("known witness %s: %v", k.Witness, err))
				t.Fatalf("known witness %s: %v", k.Witness, err)
			}
			out := check(c)
			if out.HarnessError != "" {
				rec.HarnessError(out.HarnessError)
				t.Fatalf("harness error on witness %s: %s", k.Witness, out.HarnessError)
			}
			kr.Reproduces = out.Violation != "" || out.ExcludedBy == k.Key
			kr.Violation = out.Violation
			if out.ExcludedBy == k.Key {
				kr.Violation = "still reproduces (recognised by the finding's class predicate)"
			}
			rec.Known(kr)
		}
	}

	rapid.Check(t, func(rt *rapid.T) {
		if time.Now().After(deadline) {
			rec.BudgetExhausted()
			return
		}
		c := gen(rt)
		out := check(c)
		if out.HarnessError != "" {
			rec.HarnessError(out.HarnessError)
			// not a property failure: do not let rapid shrink it into a "violation"
			rt.Skip("harness error: " + out.HarnessError)
		}
		if out.ExcludedBy != "" {
			rec.Exclude(out.ExcludedBy)
			return
		}
		if out.Violation != "" {
			path := ""
			if replayOut != "" {
				path = replayOut
				writeReplay(path, id, c, out)
			}
			rec.Fail(out.Violation, path)
			rt.Fatalf("VIOLATION %s: %s", id, out.Violation)
		}
		rec.Eval()
		rec.Label(out.Labels...)
		if out.Inconclusive != "" {
			rec.Inconclusive()
			rec.Label("inconclusive:" + out.Inconclusive)
		}
		if out.NonTrivial {
			key := out.Key
			if key == "" {
				b, _ := json.Marshal(c)
				key = string(b)
			}
			rec.NonTrivial(key, func() any {
				if out.Sample != nil {
					return out.Sample
				}
				return c
			})
		}
	})
}

func writeReplay[C any](path, id string, c C, out Outcome) {
	cb, _ := json.Marshal(c)
	rf := replayFile{Property: id, Violation: out.Violation, Case: cb, Detail: out.Detail}
	b, _ := json.MarshalIndent(rf, "", " ")
	_ = os.MkdirAll(filepath.Dir(path), 0o755)
	_ = os.WriteFile(path, b, 0o644)
}

func loadCase[C any](path, id string) (C, error) {
	var c C
	b, err := os.ReadFile(path)
	if err != nil {
		return c, err
	}
	var rf replayFile
	if err := json.Unmarshal(b, &rf); err != nil {
		return c, err
	}
	if rf.Property != id {
		return c, fmt.Errorf("replay file is for %s, not %s", rf.Property, id)
	}
	if err := json.Unmarshal(rf.Case, &c); err != nil {
		return c, err
	}
	return c, nil
}

func replayOne[C any](t *testing.T, id, path string, check func(C) Outcome) {
	c, err := loadCase[C](path, id)
	if err != nil {
		fmt.Printf("REPLAY-ERROR %v\n", err)
		t.Fatalf("replay: %v", err)
	}
	out := check(c)
	b, _ := json.MarshalIndent(out.Detail, "", " ")
	if out.HarnessError != "" {
		fmt.Printf("REPLAY-ERROR %s\n", out.HarnessError)
		t.Fatalf("harness error: %s", out.HarnessError)
	}
	if out.Violation != "" {
		fmt.Printf("REPLAY-VIOLATION property=%s %s\n%s\n", id, out.Violation, b)
		t.Fatalf("violation reproduced: %s", out.Violation)
	}
	fmt.Printf("REPLAY-OK property=%s (no violation on this case)\n", id)
}
