package props

import (
	"fmt"
	"strings"
	"testing"
	"time"

	"pgregory.net/rapid"

	"verifharness/cli"
)

// C13 — renumber-tests numbers tests 1..n, touches nothing else, and is idempotent.

type YLine struct {
	K   string `json:"k"`             // id | title | other
	Pre string `json:"pre"`           // text before the key (indentation, "- ")
	Val string `json:"val"`           // old value (id/title) or the whole line (other)
	Gap string `json:"gap,omitempty"` // blanks between the colon and the value
}

type C13Case struct {
	Rule    string   `json:"rule"`
	Ext     string   `json:"ext"` // .yaml | .yml
	Lines   []YLine  `json:"lines"`
	CRLF    bool     `json:"crlf,omitempty"`
	FinalNL bool     `json:"final_nl"`
	Trail   []string `json:"trail,omitempty"` // extra trailing blank / white-space lines
	Via     string   `json:"via"`             // id | file | all
	// Github: the rewriting runs are made with -o github (the output format must not change what is written)
	Github bool `json:"github,omitempty"`
	// RootName: name of the CRS root's directory ("" = crs); names with glob metacharacters come with a sibling
	// directory `crs1` that such a pattern matches and that holds a test file for the same rule
	RootName string `json:"root_name,omitempty"`
	// Dir: name of the test file's directory below tests/regression/tests ("" = REQUEST-<category>-X); any name is legal
	Dir string   `json:"dir,omitempty"`
	Lab []string `json:"labels,omitempty"`
}

func (l YLine) text() string {
	switch l.K {
	case "id":
		return l.Pre + "test_id:" + l.Gap + l.Val
	case "title":
		return l.Pre + "test_title:" + l.Gap + l.Val
	}
	return l.Val
}

func (c C13Case) dir() string {
	if c.Dir == "" {
		return "REQUEST-" + c.Rule[:3] + "-X"
	}
	return c.Dir
}

func (c C13Case) content() string {
	eol := "\n"
	if c.CRLF {
		eol = "\r\n"
	}
	var sb strings.Builder
	for _, l := range c.Lines {
		sb.WriteString(l.text() + eol)
	}
	for _, t := range c.Trail {
		sb.WriteString(t + eol)
	}
	s := sb.String()
	if !c.FinalNL {
		s = strings.TrimSuffix(s, eol)
	}
	return s
}

// expected is the reference rewrite: n-th test_id -> n, n-th test_title -> <rule>-n, every other
// line untouched, trailing blank lines removed, exactly one final newline.
func (c C13Case) expected() string {
	var out []string
	ids, titles := 0, 0
	for _, l := range c.Lines {
		switch l.K {
		case "id":
			ids++
			out = append(out, fmt.Sprintf("%stest_id: %d", l.Pre, ids))
		case "title":
			titles++
			out = append(out, fmt.Sprintf("%stest_title: %s-%d", l.Pre, c.Rule, titles))
		default:
			out = append(out, l.Val)
		}
	}
	out = append(out, c.Trail...)
	if !c.FinalNL && len(out) > 0 && !c.CRLF {
		// nothing to do: the last line simply lacks its terminator
	}
	for len(out) > 0 && strings.TrimSpace(out[len(out)-1]) == "" {
		out = out[:len(out)-1]
	}
	if len(out) == 0 {
		return ""
	}
	return strings.Join(out, "\n") + "\n"
}

var yamlOther = []string{"---", "meta:", "  author: \"someone\"", "  description: \"tests for rule\"", "  enabled: true", "  name: 932100.yaml", "tests:", "    desc: \"a test\"", "    stages:", "      - input:", "          dest_addr: 127.0.0.1", "          headers:", "            Host: localhost", "          uri: \"/get?x=test_identifier\"", "          data: \"title test_id without colon\"", "    desc: \"regression for test_id: 7 of the old suite\"", "    # test_title: 920100-3 was removed", "          uri: \"/?test_id: 5\"", "        output:", "          log:", "            expect_ids: [932100]", "    # a comment", "", "  ", "          version: HTTP/1.1   ", "    tags: [a, b]", "      - stage:"}

func genC13(t *rapid.T) C13Case {
	c := C13Case{Rule: rapid.SampledFrom([]string{"932100", "920350", "941999"}).Draw(t, "rule"), Ext: rapid.SampledFrom([]string{".yaml", ".yaml", ".yml"}).Draw(t, "ext"), FinalNL: true}
	lab := map[string]bool{}
	for i := rapid.IntRange(0, 5).Draw(t, "pre"); i > 0; i-- {
		c.Lines = append(c.Lines, YLine{K: "other", Val: rapid.SampledFrom(yamlOther[:7]).Draw(t, "preline")})
	}
	shape := rapid.SampledFrom([]string{"id", "id", "title", "both-id-first", "both-title-first", "mixed", "mixed"}).Draw(t, "shape")
	lab["shape:"+shape] = true
	n := rapid.IntRange(0, 8).Draw(t, "tests")
	misnumbered := false
	for k := 1; k <= n; k++ {
		var kinds []string
		switch shape {
		case "id":
			kinds = []string{"id"}
		case "title":
			kinds = []string{"title"}
		case "both-id-first":
			kinds = []string{"id", "title"}
		case "both-title-first":
			kinds = []string{"title", "id"}
		default:
			kinds = rapid.SampledFrom([][]string{{"id"}, {"title"}, {"id", "title"}, {"title", "id"}, {}}).Draw(t, "mixedkinds")
		}
		for j, kd := range kinds {
			pre := "    "
			if j == 0 {
				pre = rapid.SampledFrom([]string{"  - ", "  - ", "- ", "    - "}).Draw(t, "dash")
			}
			var val string
			switch rapid.IntRange(0, 5).Draw(t, "valkind") {
			case 0, 1:
				if kd == "id" {
					val = fmt.Sprint(k)
				} else {
					val = fmt.Sprintf("%s-%d", c.Rule, k)
				}
			case 2:
				val = fmt.Sprint(rapid.IntRange(0, 99).Draw(t, "num"))
				misnumbered = true
			case 3:
				val = rapid.SampledFrom([]string{`"abc"`, "homer", `"pine apple"`, "1 # first", "0x10", "9 # test_id: x", "4 # was test_title: y"}).Draw(t, "str")
				misnumbered = true
			default:
				val = fmt.Sprintf("%s-%d", c.Rule, rapid.IntRange(0, 20).Draw(t, "tnum"))
				misnumbered = true
			}
			c.Lines = append(c.Lines, YLine{K: kd, Pre: pre, Val: val, Gap: rapid.SampledFrom([]string{" ", " ", "  ", "\t"}).Draw(t, "gap")})
		}
		if len(kinds) == 0 {
			c.Lines = append(c.Lines, YLine{K: "other", Val: "  - desc: \"test without id\""})
		}
		for i := rapid.IntRange(0, 5).Draw(t, "body"); i > 0; i-- {
			c.Lines = append(c.Lines, YLine{K: "other", Val: rapid.SampledFrom(yamlOther).Draw(t, "bodyline")})
		}
		if !lab["long-payload-line"] && rapid.IntRange(0, 60).Draw(t, "longline") == 0 {
			// a payload longer than 64 KiB: just another line whose content stays untouched
			c.Lines = append(c.Lines, YLine{K: "other", Val: "          data: \"" + strings.Repeat("A", 66000+rapid.IntRange(0, 3000).Draw(t, "longlen")) + "\""})
			lab["long-payload-line"] = true
		}
	}
	if misnumbered {
		lab["misnumbered"] = true
	}
	switch rapid.IntRange(0, 5).Draw(t, "eof") {
	case 0:
		c.FinalNL = false
		lab["no-final-newline"] = true
	case 1:
		c.Trail = []string{"", ""}
		lab["trailing-blank-lines"] = true
	case 2:
		c.Trail = []string{"   ", "\t"}
		lab["trailing-whitespace-lines"] = true
	}
	if rapid.IntRange(0, 5).Draw(t, "crlf") == 0 {
		c.CRLF = true
		lab["crlf"] = true
	}
	if n == 0 {
		lab["no-tests"] = true
	}
	c.Via = rapid.SampledFrom([]string{"id", "id", "file", "all"}).Draw(t, "via")
	c.Github = rapid.IntRange(0, 3).Draw(t, "github") == 0
	if c.Github {
		lab["output-github"] = true
	}
	c.Dir = rapid.SampledFrom([]string{"", "", "", "rce-unix", "x", "REQUEST-ALL", "0"}).Draw(t, "dir")
	if c.Dir != "" {
		lab["directory-without-category-number"] = true
	}
	c.RootName = rapid.SampledFrom([]string{"", "", "", "", "crs[12]", "crs?", "crs*", "crs[!x]"}).Draw(t, "rootname")
	if c.RootName != "" {
		lab["root-name-with-glob-metacharacter"] = true
	}
	lab["via:"+c.Via] = true
	c.Lab = labelsOf(lab)
	return c
}

func checkC13(c C13Case) Outcome {
	out := Outcome{Labels: c.Lab, Detail: map[string]any{}}
	content := c.content()
	sb := cli.NewSandbox("c13")
	defer sb.Close()
	rel := "tests/regression/tests/" + c.dir() + "/" + c.Rule + c.Ext
	other := "tests/regression/tests/REQUEST-911-Y/911100.yaml"
	// correctly numbered neighbours, with legacy titles too: every file is numbered on its own
	otherContent := "---\ntests:\n  - test_id: 1\n    test_title: 911100-1\n  - test_id: 2\n    test_title: 911100-2\n"
	laterContent := "---\ntests:\n  - test_title: 999100-1\n  - test_title: 999100-2\n  - test_title: 999100-3\n"
	later := "tests/regression/tests/REQUEST-999-Z/999100.yaml"
	tree := cli.Tree{"regex-assembly/": "", rel: content, other: otherContent, later: laterContent, "tests/regression/tests/REQUEST-999-Z/notes.txt": "not a test file\n",
		"tests/regression/tests/" + c.dir() + "/.gitkeep": "", "tests/regression/tests/" + c.dir() + "/0-readme.txt": "  - test_id: 99\n",
		"tests/regression/tests/" + c.dir() + "/900001.yaml.orig": "  - test_id: 99\n", "tests/regression/tests/.DS_Store": "x"}
	root, rootRel := sb.Path("crs"), "crs"
	if c.RootName != "" {
		root, rootRel = sb.Path(c.RootName), c.RootName
		sibling := cli.Tree{"regex-assembly/": "", rel: "---\ntests:\n  - test_id: 41\n  - test_id: 42\n"}
		if err := sibling.Write(sb.Path("crs1")); err != nil {
			panic(err)
		}
	}
	if err := tree.Write(root); err != nil {
		panic(err)
	}
	cli.Freeze(root)
	var target []string
	switch c.Via {
	case "file":
		target = []string{c.Rule + c.Ext}
	case "all":
		target = []string{"--all"}
	default:
		target = []string{c.Rule}
	}
	run := func(check bool) cli.Result {
		args := []string{"-d", root, "util", "renumber-tests"}
		if c.Github {
			args = []string{"-o", "github", "-d", root, "util", "renumber-tests"}
		}
		if check {
			args = append(args, "--check")
		}
		return cli.Run(cli.Opt{Dir: sb.Root, Timeout: 30 * time.Second}, append(args, target...)...)
	}
	want := c.expected()
	out.Detail["original"], out.Detail["expected"] = content, want
	before := cli.Snap(root)
	chk0 := run(true)
	if d := cli.Diff(before, cli.Snap(root), true); len(d) > 0 {
		out.Violation = fmt.Sprintf("renumber-tests --check modified the tree: %v", d)
		return out
	}
	r1 := run(false)
	got := sb.Read(rootRel + "/" + rel)
	out.Detail["after"], out.Detail["exit"] = got, r1.Exit
	if r1.Exit != 0 {
		out.Detail["stderr"] = tailLines(r1.Stderr, 6)
		out.Violation = fmt.Sprintf("renumber-tests fails (exit %d)", r1.Exit)
		return out
	}
	if sb.Read(rootRel+"/"+other) != otherContent || sb.Read(rootRel+"/"+later) != laterContent {
		out.Violation = "a correctly numbered file of another rule was changed"
		return out
	}
	if c.RootName != "" && sb.Read("crs1/"+rel) != "---\ntests:\n  - test_id: 41\n  - test_id: 42\n" {
		out.Violation = "a test file in another checkout (a sibling directory of the CRS root) was changed"
		return out
	}
	if got != want {
		gl, wl := strings.Split(got, "\n"), strings.Split(want, "\n")
		for i := 0; i < len(gl) || i < len(wl); i++ {
			var x, y string
			if i < len(gl) {
				x = gl[i]
			}
			if i < len(wl) {
				y = wl[i]
			}
			if x != y {
				out.Detail["first_difference"] = fmt.Sprintf("line %d: got %q want %q", i+1, x, y)
				break
			}
		}
		out.Violation = "renumbered file differs from the reference rewrite"
		return out
	}
	wantChk := 0
	if content != want {
		wantChk = 1
	}
	if (chk0.Exit != 0) != (wantChk != 0) {
		out.Detail["check_exit"] = chk0.Exit
		out.Violation = fmt.Sprintf("--check exits %d although the rewrite would%s change the file", chk0.Exit, map[bool]string{true: "", false: " not"}[content != want])
		return out
	}
	cli.Freeze(root)
	snap := cli.Snap(root)
	chk1 := run(true)
	r2 := run(false)
	if d := cli.Diff(snap, cli.Snap(root), true); len(d) > 0 {
		out.Detail["after_second"] = sb.Read(rootRel + "/" + rel)
		out.Violation = fmt.Sprintf("a second run (or --check) changed the tree again: %v", d)
		return out
	}
	if chk1.Exit != 0 || r2.Exit != 0 {
		out.Violation = fmt.Sprintf("--check after renumbering exits %d, second run exits %d", chk1.Exit, r2.Exit)
		return out
	}
	nTests := 0
	for _, l := range c.Lines {
		if l.K != "other" {
			nTests++
		}
	}
	out.NonTrivial = (nTests >= 2 && hasLabel(c.Lab, "misnumbered")) || hasLabel(c.Lab, "no-final-newline") || hasLabel(c.Lab, "trailing-whitespace-lines") || hasLabel(c.Lab, "crlf") || hasLabel(c.Lab, "no-tests")
	out.Key = content + "\x00" + c.Via + c.Ext
	out.Sample = map[string]any{"file": rel, "content": clip(content, 400), "rewritten": clip(got, 400), "check_before": chk0.Exit}
	return out
}

func TestC13(t *testing.T) { RunProp(t, "C13", genC13, checkC13) }
