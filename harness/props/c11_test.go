package props

import (
	"fmt"
	"os"
	"strings"
	"testing"
	"time"

	"pgregory.net/rapid"

	"verifharness/cli"
	"verifharness/crsgen"
	"verifharness/ragen"
)

// C11 — update rewrites only the addressed rule's @rx operand.
// C12 — after update, compare reports the rule as unchanged, and vice versa.

type UpdCase struct {
	Rules  *crsgen.RulesFile `json:"rules"`
	Prog   *ragen.Program    `json:"prog"`
	ID     string            `json:"id"`
	Offset int               `json:"offset"`
	// C12: the edit applied to the stored operand
	EditKind string   `json:"edit_kind,omitempty"` // sub | ins | del
	EditPos  int      `json:"edit_pos,omitempty"`  // scaled into the operand length
	Lab      []string `json:"labels,omitempty"`
	// Twin: name of a second file below rules/ that also matches the rule's prefix (a stale copy): the rules
	// file is ambiguous, update must fail and write nothing
	Twin string `json:"twin,omitempty"`
	// LongerID: a rule whose id is the target's id plus one digit stands in front of the target rule
	LongerID bool `json:"longer_id,omitempty"`
	// FileLink: the target's assembly file is a symbolic link to a file kept elsewhere (a shared word list)
	FileLink bool `json:"file_link,omitempty"`
	// AsmLink: regex-assembly is a symbolic link to a directory elsewhere (a shared checkout of the assembly files)
	AsmLink bool `json:"asm_link,omitempty"`
	// AltCfg: the configuration in force has another name and every command gets it with -f; a file with the
	// default name and other patterns lies next to it
	AltCfg bool `json:"alt_cfg,omitempty"`
}

func (c UpdCase) Arg() string {
	if c.Offset == 0 {
		return c.ID
	}
	return fmt.Sprintf("%s-chain%d", c.ID, c.Offset)
}

var operatorLikeEntries = []string{`\"@rx foo`, `x\"@rx y`, `a\" \\b`, `\" \\`, `"@rx `, `[\"]@rx x`, `a" b`, `\$`, `end$`, `a \x5c b`, `SecRule`, `id:932100`, `"!@rx z`}

func genUpdCase(t *rapid.T, withEdit bool) UpdCase {
	ro := crsgen.RulesOpt{Prefix: "932", MinRules: 1, MaxRules: 5, MaxChain: 3, CRLF: true, NoFinalNL: true, Trail: true, IDComments: true, HostileOps: true}
	if openFinding("D11") {
		ro.CRLF, ro.Trail = false, false
	}
	rf := crsgen.GenRulesFile(t, ro)
	if rapid.IntRange(0, 15).Draw(t, "hugeline") == 0 {
		// an earlier rule whose operand makes the line longer than 64 KiB
		clash := false
		for _, r := range rf.Rules {
			if r.ID == "932001" {
				clash = true
			}
		}
		huge := crsgen.Rule{ID: "932001", Links: []crsgen.Link{{Vars: "ARGS", Op: "@rx", Operand: "(?:" + strings.Repeat("longword|", 8000) + "x)"}}}
		if !clash {
			rf.Rules = append([]crsgen.Rule{huge}, rf.Rules...)
		}
	}
	// target: a rule and a chain offset inside its chain, forced to be an @rx / !@rx link
	ri := rapid.IntRange(0, len(rf.Rules)-1).Draw(t, "target")
	if rf.Rules[ri].ID == "932001" && len(rf.Rules[ri].Links[0].Operand) > 60000 && len(rf.Rules) > 1 {
		ri = len(rf.Rules) - 1
	}
	k := rapid.IntRange(0, len(rf.Rules[ri].Links)-1).Draw(t, "offset")
	if !strings.HasSuffix(rf.Rules[ri].Links[k].Op, "@rx") {
		rf.Rules[ri].Links[k].Op = rapid.SampledFrom([]string{"@rx", "!@rx"}).Draw(t, "forceop")
		rf.Rules[ri].Links[k].Operand = "previous" // operands with raw quotes are only valid for other operators
	}
	g := ragen.GenProgram(t, ragen.GenOpt{
		Rx:       ragen.RxOpt{Stress: 25, MaxDepth: 1, NoQuoteAfterBackslash: openFinding("D4")},
		MaxDepth: 1, MaxItems: 4, Flags: true, PrefixSuffix: true, Includes: true, Cmdline: true, TrailWS: true,
	})
	lab := g.Labels
	if rapid.IntRange(0, 2).Draw(t, "oplike") == 0 {
		e := rapid.SampledFrom(operatorLikeEntries).Draw(t, "oplikeentry")
		if !(openFinding("D10") && strings.Contains(e, `@rx `)) {
			g.Prog.Main = append(g.Prog.Main, ragen.Line{K: ragen.KEntry, T: e})
			lab["operator-like-text-in-regex"] = true
		}
	}
	c := UpdCase{Rules: rf, Prog: g.Prog, ID: rf.Rules[ri].ID, Offset: k}
	if k > 0 {
		lab["chain-offset>0"] = true
	}
	if len(rf.Rules) > 1 {
		lab["several-rules"] = true
	}
	if rf.CRLF {
		lab["crlf"] = true
	}
	if !rf.FinalNL {
		lab["no-final-newline"] = true
	}
	if rf.TrailBlank > 0 {
		lab["blank-lines-at-end-of-file"] = true
	}
	if rapid.IntRange(0, 5).Draw(t, "longerid") == 0 {
		// 9321001 in front of 932100: ids are compared as whole numbers, not as prefixes
		longer := crsgen.Rule{ID: c.ID + "1", Links: []crsgen.Link{{Vars: "ARGS", Op: "@rx", Operand: "longer-id"}, {Vars: "ARGS", Op: "@rx", Operand: "longer-id-chained"}}}
		pos := 0
		for i, r := range rf.Rules {
			if r.ID == c.ID {
				pos = i
			}
		}
		rf.Rules = append(rf.Rules[:pos], append([]crsgen.Rule{longer}, rf.Rules[pos:]...)...)
		c.LongerID = true
		lab["rule-with-longer-id-in-front"] = true
	}
	if rapid.IntRange(0, 7).Draw(t, "filelink") == 0 {
		c.FileLink = true
		lab["assembly-file-is-a-symbolic-link"] = true
	}
	if rapid.IntRange(0, 9).Draw(t, "asmlink") == 0 {
		c.AsmLink = true
		lab["regex-assembly-is-a-symbolic-link"] = true
	}
	if !withEdit && rapid.IntRange(0, 9).Draw(t, "twin") == 0 {
		c.Twin = rapid.SampledFrom([]string{"OLD-932-APPLICATION-ATTACK-X.conf", "REQUEST-932-X.conf.orig", "zz-932-copy", "REQUEST-932-APPLICATION-ATTACK-RCE.conf~"}).Draw(t, "twinname")
		if c.Twin == rf.Name {
			c.Twin = "A-" + c.Twin
		}
		lab["two-files-match-the-rule-prefix"] = true
	}
	for _, r := range rf.Rules {
		for _, cm := range r.Comments {
			if strings.Contains(cm, "id:") {
				lab["id-in-comment"] = true
			}
		}
		for _, l := range r.Links {
			if l.Trail != "" {
				lab["blanks-after-line-continuation"] = true
			}
		}
	}
	if withEdit {
		c.EditKind = rapid.SampledFrom([]string{"sub", "ins", "del"}).Draw(t, "edit")
		c.EditPos = rapid.IntRange(0, 9999).Draw(t, "editpos")
	}
	if rapid.IntRange(0, 3).Draw(t, "altcfg") == 0 {
		c.AltCfg = true
		lab["configuration-named-with--f"] = true
	}
	c.Lab = labelsOf(lab)
	return c
}

type updEnv struct {
	global    []string
	sb        *cli.Sandbox
	root      string
	rulesPath string
	original  string
	spans     map[string]crsgen.Span
}

func setupUpd(c UpdCase) *updEnv {
	sb := cli.NewSandbox("upd")
	text, spans := c.Rules.Render()
	tree := cli.Tree(c.Prog.Tree())
	tree["regex-assembly/"+c.Arg()+".ra"] = c.Prog.MainText()
	tree["rules/"+c.Rules.Name] = text
	if c.Twin != "" {
		tree["rules/"+c.Twin] = text
	}
	if c.Offset > 0 {
		// the chain starter has an assembly file too (it sorts right behind the chained file's): --all visits both
		for _, r := range c.Rules.Rules {
			if r.ID == c.ID && strings.HasSuffix(r.Links[0].Op, "@rx") {
				tree["regex-assembly/"+c.ID+".ra"] = "starterword\n"
			}
		}
	}
	tree["rules/REQUEST-901-INITIALIZATION.conf"] = "# other file\nSecRule ARGS \"@rx untouched\" \\\n    \"id:901100,\\\n    phase:1\"\n"
	// a second, unrelated assembly file whose rule is in sync and which sorts after every 932 target
	tree["regex-assembly/933100.ra"] = "insync\n"
	// assembly files that are not named like a rule and sort before every target: --all passes them by
	if c.FileLink {
		tree["regex-assembly/shared-lists/"+c.Arg()+".txt"] = c.Prog.MainText()
		tree["regex-assembly/"+c.Arg()+".ra"] = cli.SymlinkPrefix + "shared-lists/" + c.Arg() + ".txt"
	}
	// copies named like the target in other sub-directories: only the assembly directory itself holds rule files
	tree["regex-assembly/drafts/"+c.Arg()+".ra"] = "draft copy of the target\n"
	tree["regex-assembly/old/archive/"+c.ID+".ra"] = "archived copy\n"
	tree["regex-assembly/0-scratch.ra"] = "scratch\n"
	tree["regex-assembly/000000-wip.ra"] = "work in progress\n"
	tree["rules/REQUEST-933-APPLICATION-ATTACK-PHP.conf"] = "SecRule ARGS \"@rx insync\" \\\n    \"id:933100,\\\n    phase:2\"\n"
	tree["tests/regression/tests/x/932100.yaml"] = "---\nmeta:\n  name: x\ntests:\n  - test_id: 7\n"
	root := sb.Path("crs")
	global := []string{"-d", root}
	if c.AltCfg {
		if v, ok := tree["regex-assembly/toolchain.yaml"]; ok {
			tree["regex-assembly/alt-config.yaml"] = v
		} else {
			tree["regex-assembly/alt-config.yaml"] = "patterns:\n  anti_evasion:\n    unix: 'Q?'\n    windows: 'Q?'\n"
		}
		tree["regex-assembly/toolchain.yaml"] = "patterns:\n  anti_evasion:\n    unix: 'Z*'\n    windows: 'Z*'\n  anti_evasion_suffix:\n    unix: 'Y'\n    windows: 'Y'\n  anti_evasion_no_space_suffix:\n    unix: 'W'\n    windows: 'W'\n"
		global = append(global, "-f", "alt-config.yaml")
	}
	if err := tree.Write(root); err != nil {
		panic(err)
	}
	if c.AsmLink {
		if err := os.Rename(root+"/regex-assembly", sb.Path("shared-assembly")); err != nil {
			panic(err)
		}
		if err := os.Symlink("../shared-assembly", root+"/regex-assembly"); err != nil {
			panic(err)
		}
	}
	cli.Freeze(root)
	return &updEnv{global: global, sb: sb, root: root, rulesPath: "rules/" + c.Rules.Name, original: text, spans: spans}
}

func (e *updEnv) run(args ...string) cli.Result {
	return cli.Run(cli.Opt{Dir: e.sb.Root, Timeout: 30 * time.Second}, append(append([]string{}, e.global...), args...)...)
}

func checkC11(c UpdCase) Outcome {
	out := Outcome{Labels: c.Lab, Detail: map[string]any{}}
	e := setupUpd(c)
	defer e.sb.Close()
	span, ok := e.spans[crsgen.Key(c.ID, c.Offset)]
	if !ok {
		out.HarnessError = "target not in rules file"
		return out
	}
	gen := e.run("regex", "generate", c.Arg())
	before := cli.Snap(e.root)
	up := e.run("regex", "update", c.Arg())
	after := cli.Snap(e.root)
	got := e.sb.Read("crs/" + e.rulesPath)
	out.Detail["arg"] = c.Arg()
	out.Detail["rules_before"] = e.original
	out.Detail["program"] = c.Prog.MainText()
	out.Detail["generated"], out.Detail["generate_exit"] = gen.Stdout, gen.Exit
	out.Detail["update_exit"] = up.Exit
	out.Detail["rules_after"] = got
	diff := cli.ContentDiff(before, after)
	if gen.Exit != 0 {
		// the program does not compile: update must fail and leave everything alone
		if up.Exit == 0 || len(diff) > 0 {
			out.Violation = fmt.Sprintf("generate fails for the target but update exits %d and changed %v", up.Exit, diff)
			return out
		}
		out.Labels = append(out.Labels, "target-does-not-compile")
		return out
	}
	if c.Twin != "" && strings.HasSuffix(c.Twin, ".conf") {
		// two rules files (*.conf) for the prefix: ambiguous. A backup or editor copy next to the rules file
		// (`.conf.orig`, `.conf~`, no extension) is not a rules file: the update goes on as usual and leaves it alone.
		if up.Exit == 0 || len(diff) > 0 {
			out.Violation = fmt.Sprintf("two files below rules/ match the rule's prefix (%s, %s) but update exits %d and changed %v", c.Rules.Name, c.Twin, up.Exit, diff)
			return out
		}
		out.NonTrivial = true
		out.Key = e.original + "\x00twin\x00" + c.Twin + c.Arg()
		out.Sample = map[string]any{"arg": c.Arg(), "twin": c.Twin, "update_exit": up.Exit}
		return out
	}
	if up.Exit != 0 {
		out.Detail["update_stderr"] = tailLines(up.Stderr, 6)
		if len(diff) > 0 {
			out.Violation = fmt.Sprintf("update exited %d but changed %v", up.Exit, diff)
			return out
		}
		out.Violation = fmt.Sprintf("update refuses a rules file in plain CRS layout (exit %d)", up.Exit)
		return out
	}
	want := e.original[:span.Start] + gen.Stdout + e.original[span.End:]
	for _, d := range diff {
		if d != "~"+e.rulesPath {
			out.Violation = fmt.Sprintf("update touched other files: %v", diff)
			return out
		}
	}
	if got != want {
		out.Detail["rules_expected"] = want
		gl, wl := strings.Split(got, "\n"), strings.Split(want, "\n")
		for i := 0; i < len(gl) || i < len(wl); i++ {
			var x, y string
			if i < len(gl) {
				x = gl[i]
			}
			if i < len(wl) {
				y = wl[i]
			}
			if x != y {
				out.Detail["first_difference"] = fmt.Sprintf("line %d: got %q want %q", i+1, x, y)
				break
			}
		}
		if len(gl) != len(wl) {
			out.Detail["line_count"] = fmt.Sprintf("got %d want %d", len(gl), len(wl))
		}
		out.Violation = "rules file after update differs from the original with exactly the target operand replaced"
		return out
	}
	// --all with a second assembly file for another link of the same rule: every link gets its own regex
	if len(c.Rules.Rules) > 0 {
		var other int = -1
		for _, r := range c.Rules.Rules {
			if r.ID != c.ID {
				continue
			}
			for k, l := range r.Links {
				if k != c.Offset && strings.HasSuffix(l.Op, "@rx") {
					other = k
				}
			}
		}
		if other >= 0 {
			e2 := setupUpd(c)
			defer e2.sb.Close()
			oarg := c.ID
			if other > 0 {
				oarg = fmt.Sprintf("%s-chain%d", c.ID, other)
			}
			if c.Offset > 0 && other > 0 {
				// two chained links are the subject here; the starter's own assembly file stays out of it
				_ = os.Remove(e2.sb.Path("crs/regex-assembly/" + c.ID + ".ra"))
			}
			e2.sb.WriteFile("crs/regex-assembly/"+oarg+".ra", "otherlink"+fmt.Sprint(other)+"\n")
			ra := e2.run("regex", "update", "--all")
			gotAll := e2.sb.Read("crs/" + e2.rulesPath)
			sp2 := e2.spans[crsgen.Key(c.ID, other)]
			// expected: both spans replaced (replace the later span first so offsets stay valid)
			wantAll := e.original
			type rep struct {
				s    crsgen.Span
				text string
			}
			reps := []rep{{span, gen.Stdout}, {sp2, "otherlink" + fmt.Sprint(other)}}
			if reps[0].s.Start < reps[1].s.Start {
				reps[0], reps[1] = reps[1], reps[0]
			}
			for _, r := range reps {
				wantAll = wantAll[:r.s.Start] + r.text + wantAll[r.s.End:]
			}
			if ra.Exit != 0 || gotAll != wantAll {
				out.Detail["all_exit"], out.Detail["rules_after_all"], out.Detail["rules_expected_all"] = ra.Exit, gotAll, wantAll
				out.Detail["first_difference_all"] = firstDiffLine(gotAll, wantAll)
				out.Violation = fmt.Sprintf("update --all with %s.ra and %s.ra does not give every link its own regex", c.Arg(), oarg)
				return out
			}
			out.Labels = append(out.Labels, "all-with-two-links")
		}
	}
	out.NonTrivial = len(c.Rules.Rules) >= 2 && (c.Offset > 0 || strings.ContainsAny(gen.Stdout, `"\`) || hasLabel(c.Lab, "several-rules"))
	out.Key = e.original + "\x00" + c.Arg() + "\x00" + c.Prog.Canon()
	out.Sample = map[string]any{"arg": c.Arg(), "rules": clip(e.original, 500), "generated": clip(gen.Stdout, 160)}
	return out
}

func genC11(t *rapid.T) UpdCase { return genUpdCase(t, false) }

func TestC11(t *testing.T) { RunProp(t, "C11", genC11, checkC11) }
