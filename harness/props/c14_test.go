package props

import (
	"fmt"
	"os"
	"regexp"
	"strings"
	"testing"
	"time"

	"pgregory.net/rapid"

	"verifharness/cli"
)

// C14 — update-copyright sets version and year everywhere, whatever was there before.

type CLine struct {
	K string `json:"k"`           // other | version | version-long | year | year-long | ver | sig | setup
	T string `json:"t"`           // other: whole line; ver: text before/after split by \x00; setup: idem
	V string `json:"v,omitempty"` // initial version / year / digits on marker lines
}

type CFile struct {
	Path    string  `json:"path"`
	Lines   []CLine `json:"lines"`
	FinalNL bool    `json:"final_nl"`
	// CRLF: the file has Windows line endings; they are text the command has no business changing
	CRLF bool `json:"crlf,omitempty"`
	// MixedEOL > 0: only the first MixedEOL lines end in CRLF (a pasted header), the rest in LF
	MixedEOL int `json:"mixed_eol,omitempty"`
}

type CInv struct {
	Version string `json:"version"`
	Year    string `json:"year"`
}

type C14Case struct {
	DotRoot bool `json:"dot_root,omitempty"` // the CRS root directory itself is named .crs
	// ViaLink: the -d argument is a symbolic link to the CRS root ("link"), also spelled with a trailing slash ("link/")
	ViaLink string `json:"via_link,omitempty"`
	// LinkDecoy: symbolic links to files that are no targets sit next to the targets
	LinkDecoy bool     `json:"link_decoy,omitempty"`
	Files     []CFile  `json:"files"`
	Seq       []CInv   `json:"seq"`
	Lab       []string `json:"labels,omitempty"`
}

func onlyDigits(v string) string {
	return strings.Join(regexp.MustCompile(`\d+`).FindAllString(v, -1), "")
}

// render prints a marker line for version v / year y; v=="" means "initial value".
func (l CLine) render(v, y string) string {
	ver, year := l.V, l.V
	if v != "" {
		ver, year = v, y
	}
	switch l.K {
	case "version":
		return "# OWASP CRS ver." + ver
	case "version-long":
		return "# OWASP ModSecurity Core Rule Set ver." + ver
	case "year":
		return "# Copyright (c) 2021-" + year + " CRS project. All rights reserved."
	case "year-long":
		return "# Copyright (c) 2021-" + year + " Core Rule Set project. All rights reserved."
	case "ver":
		p := strings.SplitN(l.T, "\x00", 2)
		return p[0] + "ver:'OWASP_CRS/" + ver + "'" + p[1]
	case "sig":
		return `SecComponentSignature "OWASP_CRS/` + ver + `"`
	case "setup":
		p := strings.SplitN(l.T, "\x00", 2)
		d := l.V
		if v != "" {
			d = onlyDigits(v)
		}
		return p[0] + "setvar:tx.crs_setup_version=" + d + p[1]
	case "ver+setup":
		// a compact one-line rule carrying two marker kinds
		d := onlyDigits(l.V)
		if v != "" {
			d = onlyDigits(v)
		}
		return `SecAction "id:900990,phase:1,nolog,pass,ver:'OWASP_CRS/` + ver + `',setvar:tx.crs_setup_version=` + d + `"`
	case "ver+ver":
		return `SecRule ARGS "@rx x" "id:1,ver:'OWASP_CRS/` + ver + `',chain" # ver:'OWASP_CRS/` + ver + `'`
	}
	return l.T
}

func (f CFile) content(v, y string) string {
	var sb strings.Builder
	n := len(f.Lines)
	if v != "" && !f.FinalNL && n > 0 && f.Lines[n-1].render(v, y) == "" {
		// an empty last line without terminator does not exist as a line
		n--
	}
	for i, l := range f.Lines[:n] {
		sb.WriteString(l.render(v, y))
		if i < len(f.Lines)-1 || f.FinalNL || v != "" {
			sb.WriteString("\n")
		}
	}
	if f.CRLF {
		return strings.ReplaceAll(sb.String(), "\n", "\r\n")
	}
	if f.MixedEOL > 0 {
		parts := strings.SplitAfter(sb.String(), "\n")
		for i := range parts {
			if i < f.MixedEOL && strings.HasSuffix(parts[i], "\n") {
				parts[i] = strings.TrimSuffix(parts[i], "\n") + "\r\n"
			}
		}
		return strings.Join(parts, "")
	}
	return sb.String()
}

var confOther = []string{"# ------------------------------------------------------------------------", "#", "# This file REQUEST-901-INITIALIZATION.conf initializes the Core Rules", "", "SecRule &TX:crs_setup_version \"@eq 0\" \\", "    \"id:901001,\\", "    phase:1,\\", "    deny,\\", "    status:500,\\", "    log,\\", "    auditlog,\\", "    msg:'ModSecurity CRS is deployed without configuration!',\\", "    severity:'CRITICAL'\"", "SecAction \\", "    \"id:900990,\\", "    nolog,\\", "    tag:'OWASP_CRS',\\", "# The version 4.0.0 is mentioned in prose and a year 2021-2024 too", "    t:none,\\", "    # ver. in a comment, OWASP_CRS/ without quote", "  setvar:tx.other=400\"", "# Copyright (c) 2021-2024 somebody else. All rights reserved."}

func genCFile(t *rapid.T, path string, setup bool) CFile {
	f := CFile{Path: path, FinalNL: rapid.IntRange(0, 5).Draw(t, "finalnl") != 0}
	initial := rapid.SampledFrom([]string{"4.0.0", "3.3.2", "4.0.0-rc1", "4.9.1", "10.12.3"}).Draw(t, "initial")
	if rapid.IntRange(0, 9).Draw(t, "oneline") == 0 {
		// a file that is one single line (with or without its terminator)
		f.Lines = []CLine{{K: rapid.SampledFrom([]string{"sig", "version", "other"}).Draw(t, "onelinek"), T: confOther[0], V: initial}}
		return f
	}
	if rapid.IntRange(0, 5).Draw(t, "directivefirst") == 0 {
		// the banner does not open the file: a directive stands in front of it
		f.Lines = append(f.Lines, CLine{K: "other", T: "SecRuleEngine DetectionOnly"})
	}
	f.Lines = append(f.Lines, CLine{K: "other", T: confOther[0]})
	if rapid.IntRange(0, 4).Draw(t, "hasver") != 0 {
		f.Lines = append(f.Lines, CLine{K: rapid.SampledFrom([]string{"version", "version", "version-long"}).Draw(t, "verk"), V: initial})
	}
	if rapid.IntRange(0, 4).Draw(t, "hasyear") != 0 {
		f.Lines = append(f.Lines, CLine{K: rapid.SampledFrom([]string{"year", "year", "year-long"}).Draw(t, "yeark"), V: rapid.SampledFrom([]string{"2024", "2021", "2023"}).Draw(t, "inityear")})
	}
	n := rapid.IntRange(1, 14).Draw(t, "nlines")
	if rapid.IntRange(0, 11).Draw(t, "bigfile") == 0 {
		// the size of a real rule file: hundreds of lines, a version marker in every rule (well above 8 KiB)
		n = rapid.IntRange(250, 700).Draw(t, "nbiglines")
	}
	for i := 0; i < n; i++ {
		switch k := rapid.IntRange(0, 11).Draw(t, "linek"); {
		case k <= 1:
			f.Lines = append(f.Lines, CLine{K: "ver", T: rapid.SampledFrom([]string{"    \x00,\\", "    \x00\"", "    tag:'x',\x00,\\", "    \x00,severity:'CRITICAL'\""}).Draw(t, "verctx"), V: initial})
		case k == 2:
			f.Lines = append(f.Lines, CLine{K: "sig", V: initial})
		case k == 4:
			f.Lines = append(f.Lines, CLine{K: rapid.SampledFrom([]string{"ver+setup", "ver+ver"}).Draw(t, "combo"), V: initial})
		case k == 5 && i%2 == 0:
			// banner lines again further down (two files pasted together, a banner behind the first directive)
			if rapid.Bool().Draw(t, "lateverk") {
				f.Lines = append(f.Lines, CLine{K: rapid.SampledFrom([]string{"version", "version-long"}).Draw(t, "latever"), V: initial})
			} else {
				f.Lines = append(f.Lines, CLine{K: rapid.SampledFrom([]string{"year", "year-long"}).Draw(t, "lateyear"), V: rapid.SampledFrom([]string{"2024", "2021", "2023"}).Draw(t, "lateinityear")})
			}
		case k == 3 && setup:
			f.Lines = append(f.Lines, CLine{K: "setup", T: rapid.SampledFrom([]string{"    \x00\"", "    \x00,\\", "  \x00,setvar:tx.a=1\""}).Draw(t, "setupctx"), V: onlyDigits(initial)})
		default:
			f.Lines = append(f.Lines, CLine{K: "other", T: rapid.SampledFrom(confOther).Draw(t, "other")})
		}
	}
	return f
}

var versionPool = []string{"4.1.0", "4.10.2", "v4.1.0", "4.2.0-rc1", "4.2.0-RC1", "v4.2.0-rc.2", "4.3", "4.4.0+b7", "5.0.0-alpha-1", "v4.5.0-RC2+x", "4.0.1", "12.0.0"}

func genC14(t *rapid.T) C14Case {
	var c C14Case
	paths := []string{"rules/REQUEST-901-INITIALIZATION.conf", ".devcontainer/modsecurity/extra.conf", "crs-setup.conf.example", "plugins/empty-config.conf", "rules/restricted-files.data.example", "rules/REQUEST-932-APPLICATION-ATTACK-RCE.conf"}
	if rapid.IntRange(0, 2).Draw(t, "samebasename") == 0 {
		// the same file name in two directories
		paths = []string{"crs-setup.conf.example", "util/docker/crs-setup.conf.example", "rules/REQUEST-901-INITIALIZATION.conf", "tests/docker/rules/REQUEST-901-INITIALIZATION.conf", "plugins/empty-config.conf", "x/plugins/empty-config.conf"}
	}
	n := rapid.IntRange(1, 5).Draw(t, "nfiles")
	c.DotRoot = rapid.IntRange(0, 5).Draw(t, "dotroot") == 0
	c.ViaLink = rapid.SampledFrom([]string{"", "", "", "", "", "link", "link/"}).Draw(t, "vialink")
	c.LinkDecoy = rapid.IntRange(0, 4).Draw(t, "linkdecoy") == 0
	for i := 0; i < n; i++ {
		c.Files = append(c.Files, genCFile(t, paths[i], strings.Contains(paths[i], "setup") || i == 0))
		if rapid.IntRange(0, 7).Draw(t, "crlf") == 0 {
			c.Files[i].CRLF, c.Files[i].FinalNL = true, true
		} else if rapid.IntRange(0, 7).Draw(t, "mixedeol") == 0 {
			c.Files[i].MixedEOL, c.Files[i].FinalNL = rapid.IntRange(1, 3).Draw(t, "nmixed"), true
		}
	}
	k := rapid.IntRange(1, 3).Draw(t, "nseq")
	spell := map[string]bool{}
	for i := 0; i < k; i++ {
		v := rapid.SampledFrom(versionPool).Draw(t, "version")
		c.Seq = append(c.Seq, CInv{Version: v, Year: fmt.Sprint(rapid.IntRange(2022, 2031).Draw(t, "year"))})
		switch {
		case strings.HasPrefix(v, "v"):
			spell["v-prefix"] = true
		case strings.ContainsAny(v, "ABCDEFGHIJKLMNOPQRSTUVWXYZ"):
			spell["upper-case-prerelease"] = true
		case strings.Contains(v, "+"):
			spell["build-metadata"] = true
		case strings.Count(v, ".") < 2:
			spell["two-components"] = true
		case strings.Contains(v, "-"):
			spell["prerelease"] = true
		default:
			spell["plain"] = true
		}
	}
	lab := map[string]bool{fmt.Sprintf("sequence:%d", k): true}
	for s := range spell {
		lab["spelling:"+s] = true
	}
	if c.ViaLink != "" {
		lab["root-reached-through-a-symbolic-link"] = true
	}
	if c.LinkDecoy {
		lab["symbolic-links-next-to-targets"] = true
	}
	markers := 0
	for _, f := range c.Files {
		if f.CRLF {
			lab["crlf-file"] = true
		}
		if f.MixedEOL > 0 {
			lab["mixed-line-endings"] = true
		}
		if len(f.Lines) > 200 {
			lab["file-above-8KiB"] = true
		}
		for _, l := range f.Lines {
			if l.K != "other" {
				markers++
				lab["marker:"+l.K] = true
			}
		}
	}
	if markers == 0 {
		lab["no-markers"] = true
	}
	c.Lab = labelsOf(lab)
	return c
}

func checkC14(c C14Case) Outcome {
	out := Outcome{Labels: c.Lab, Detail: map[string]any{}}
	build := func() (*cli.Sandbox, string) {
		sb := cli.NewSandbox("c14")
		tree := cli.Tree{"regex-assembly/": ""}
		for _, f := range c.Files {
			tree[f.Path] = f.content("", "")
		}
		root := sb.Path("crs")
		if c.DotRoot {
			root = sb.Path("work/.crs")
		}
		if err := tree.Write(root); err != nil {
			panic(err)
		}
		if c.ViaLink != "" {
			if err := os.Symlink(root, sb.Path("link")); err != nil {
				panic(err)
			}
		}
		if c.LinkDecoy {
			// symbolic links that are no targets themselves and sort before the targets of their directory
			_ = os.MkdirAll(root+"/rules", 0o755)
			_ = os.WriteFile(root+"/README.md", []byte("read me\n"), 0o644)
			_ = os.Symlink("../README.md", root+"/rules/AAA-README.md")
			_ = os.Symlink("README.md", root+"/0-link.md")
		}
		return sb, root
	}
	run := func(sb *cli.Sandbox, root string, inv CInv) cli.Result {
		darg := root
		if c.ViaLink != "" {
			darg = sb.Path(c.ViaLink)
		}
		return cli.Run(cli.Opt{Dir: sb.Root, Timeout: 30 * time.Second}, "-d", darg, "chore", "update-copyright", "-v", inv.Version, "-y", inv.Year)
	}
	last := c.Seq[len(c.Seq)-1]
	out.Detail["sequence"] = c.Seq
	// A: the whole sequence
	sa, ra := build()
	defer sa.Close()
	for i, inv := range c.Seq {
		if r := run(sa, ra, inv); r.Exit != 0 {
			out.Detail["stderr"] = tailLines(r.Stderr, 6)
			out.Violation = fmt.Sprintf("invocation %d (-v %s -y %s) fails with exit %d although the version is accepted", i+1, inv.Version, inv.Year, r.Exit)
			return out
		}
	}
	// B: only the last invocation on the original tree
	sbB, rb := build()
	defer sbB.Close()
	if r := run(sbB, rb, last); r.Exit != 0 {
		out.HarnessError = fmt.Sprintf("last invocation alone fails: %s", tailLines(r.Stderr, 3))
		return out
	}
	ta, tb := cli.ReadTree(ra), cli.ReadTree(rb)
	for _, f := range c.Files {
		want := f.content(last.Version, last.Year)
		if tb[f.Path] != want {
			out.Detail["file"], out.Detail["original"], out.Detail["got"], out.Detail["want"] = f.Path, f.content("", ""), tb[f.Path], want
			out.Detail["first_difference"] = firstDiffLine(tb[f.Path], want)
			out.Violation = fmt.Sprintf("after one invocation %s does not show the version/year in every marker with all other text untouched", f.Path)
			return out
		}
		if ta[f.Path] != tb[f.Path] {
			out.Detail["file"], out.Detail["original"] = f.Path, f.content("", "")
			out.Detail["after_sequence"], out.Detail["after_last_only"] = ta[f.Path], tb[f.Path]
			out.Detail["first_difference"] = firstDiffLine(ta[f.Path], tb[f.Path])
			out.Violation = fmt.Sprintf("%s after the sequence differs from the result of its last invocation alone (a marker written by an earlier run was not recognised)", f.Path)
			return out
		}
	}
	// repeating the last invocation changes nothing
	before := cli.Snap(ra)
	if r := run(sa, ra, last); r.Exit != 0 {
		out.Violation = "repeating the last invocation fails"
		return out
	}
	if d := cli.ContentDiff(before, cli.Snap(ra)); len(d) > 0 {
		out.Violation = fmt.Sprintf("repeating the command changed %v", d)
		return out
	}
	spellings := 0
	for _, l := range c.Lab {
		if strings.HasPrefix(l, "spelling:") {
			spellings++
		}
	}
	out.NonTrivial = len(c.Seq) >= 2 && !hasLabel(c.Lab, "no-markers") && (spellings >= 2 || c.Seq[0].Version != last.Version)
	out.Key = fmt.Sprintf("%v", c)
	out.Sample = map[string]any{"sequence": c.Seq, "file": c.Files[0].Path, "before": clip(c.Files[0].content("", ""), 400), "after": clip(ta[c.Files[0].Path], 400)}
	return out
}

func firstDiffLine(a, b string) string {
	al, bl := strings.Split(a, "\n"), strings.Split(b, "\n")
	for i := 0; i < len(al) || i < len(bl); i++ {
		var x, y string
		if i < len(al) {
			x = al[i]
		}
		if i < len(bl) {
			y = bl[i]
		}
		if x != y {
			return fmt.Sprintf("line %d: %q vs %q", i+1, x, y)
		}
	}
	return ""
}

func TestC14(t *testing.T) { RunProp(t, "C14", genC14, checkC14) }
