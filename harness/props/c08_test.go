package props

import (
	"fmt"
	"os"
	"sort"
	"strings"
	"testing"
	"time"

	"pgregory.net/rapid"

	"verifharness/cli"
	"verifharness/crsgen"
	"verifharness/ragen"
)

// C08 — processing with --all equals processing each file on its own, in any order.

type Asm struct {
	Name string       `json:"name"` // file name below regex-assembly/, e.g. 932100-chain1.ra
	Main []ragen.Line `json:"main"`
	Bad  bool         `json:"bad,omitempty"` // fails on its own by construction (references a name only another file stores)
}

type C08Case struct {
	Asms    []Asm               `json:"asms"`
	Include map[string]string   `json:"include,omitempty"`
	Rules   []*crsgen.RulesFile `json:"rules"`
	Perm    []int               `json:"perm"`
	Mode    string              `json:"mode"`                 // update | format | compare
	PreUpd  []int               `json:"pre_update,omitempty"` // compare: files updated beforehand
	Lab     []string            `json:"labels,omitempty"`
	// Stray: further files below regex-assembly/ that are no rule files (must be ignored by --all)
	Stray map[string]string `json:"stray,omitempty"`
	// ViaLink: every command is given the root through a symbolic link to it (-d link)
	ViaLink bool `json:"via_link,omitempty"`
}

func (a Asm) arg() string { return strings.TrimSuffix(a.Name, ".ra") }

func genC08(t *rapid.T) C08Case {
	c := C08Case{Include: map[string]string{"include/common.ra": "shared1\nshared2\n",
		"include/words.ra": "foo[-_]bar\nfoo\\sbar\nfoox?bar\nfoo_bar\nshared1\nbaz\n"}, Stray: map[string]string{}}
	lab := map[string]bool{}
	targets := []string{"932100", "932100-chain1", "932110", "932200-chain02", "941100", "941100-chain1", "941330"}
	n := rapid.IntRange(1, 5).Draw(t, "nfiles")
	perm := rapid.Permutation(targets).Draw(t, "targets")[:n]
	sort.Strings(perm)
	maxOff := map[string]int{}
	for _, tg := range perm {
		o := ragen.GenOpt{Rx: ragen.RxOpt{Stress: 5, MaxDepth: 1, NoQuoteAfterBackslash: openFinding("D4")}, MaxDepth: 2, MaxItems: 4, Flags: true, PrefixSuffix: true, Defs: true, DefsInPS: true, StoreLoad: true, Cmdline: true, Noise: true}
		g := ragen.GenProgram(t, o)
		main := g.Prog.Main
		if rapid.IntRange(0, 3).Draw(t, "inc") == 0 {
			main = append(main, ragen.Line{K: ragen.KInclude, File: "common"})
			lab["shared-include"] = true
		}
		if rapid.IntRange(0, 2).Draw(t, "exc") == 0 {
			// include-except of one shared word list with a per-file exclude file; the exclude files all
			// define the same name with different values
			ex := "ex-" + tg
			sep := rapid.SampledFrom([]string{"[-_]", "\\s", "x?", "_"}).Draw(t, "sepdef")
			c.Include["exclude/"+ex+".ra"] = "##!> define sep " + sep + "\nfoo{{sep}}bar\nshared1\n"
			main = append(main, ragen.Line{K: ragen.KExcept, File: "words", Excl: []string{ex}})
			lab["include-except-with-own-definitions"] = true
		}
		for l := range g.Labels {
			if l == "store" || l == "defs" || l == "nested-assemble" || l == "flag-i" || l == "prefix" {
				lab["file-with-"+l] = true
			}
		}
		c.Asms = append(c.Asms, Asm{Name: tg + ".ra", Main: main})
		id, off := tg[:6], 0
		if i := strings.Index(tg, "-chain"); i > 0 {
			fmt.Sscanf(tg[i+6:], "%d", &off)
			lab["chain-offset>0"] = true
		}
		if off > maxOff[id] {
			maxOff[id] = off
		}
		if _, ok := maxOff[id]; !ok {
			maxOff[id] = 0
		}
	}
	// two files whose entries are the same words in another order: the optimiser's output depends on the
	// order, so a result remembered from one file must not be handed to the other
	if n >= 2 && rapid.IntRange(0, 4).Draw(t, "permuted") == 0 {
		words := []string{"union", "insert", "select", "inject", "unite"}
		for _, i := range []int{0, 1} {
			var m []ragen.Line
			for _, w := range rapid.Permutation(words).Draw(t, "perm") {
				m = append(m, ragen.Line{K: ragen.KEntry, T: w})
			}
			c.Asms[i].Main = m
		}
		lab["files-with-permuted-entries"] = true
	}
	// a file that only works if state leaks from another file: loads a name it never stores
	if n >= 2 && rapid.IntRange(0, 4).Draw(t, "leak") == 0 {
		i := rapid.IntRange(1, n-1).Draw(t, "leakfile")
		c.Asms[0].Main = append([]ragen.Line{{K: ragen.KEntry, T: "keep"}, {K: ragen.KStore, Name: "leaked"}}, c.Asms[0].Main...)
		c.Asms[i].Main = append(c.Asms[i].Main, ragen.Line{K: ragen.KLoad, Name: "leaked"})
		c.Asms[i].Bad = true
		lab["file-depends-on-leaked-state"] = true
	}
	if n >= 2 && (lab["file-with-store"] || lab["file-with-defs"]) {
		lab["shared-names"] = true
	}
	// rules files: one per prefix
	byPrefix := map[string][]string{}
	for id := range maxOff {
		byPrefix[id[:3]] = append(byPrefix[id[:3]], id)
	}
	var prefixes []string
	for p := range byPrefix {
		prefixes = append(prefixes, p)
	}
	sort.Strings(prefixes)
	for _, p := range prefixes {
		ids := byPrefix[p]
		sort.Strings(ids)
		rf := &crsgen.RulesFile{Name: "REQUEST-" + p + "-APPLICATION-ATTACK.conf", FinalNL: true, Header: []string{"# OWASP CRS ver.4.0.0", ""}}
		for _, id := range ids {
			r := crsgen.Rule{ID: id}
			for k := 0; k <= maxOff[id]+rapid.IntRange(0, 1).Draw(t, "extrachain"); k++ {
				r.Links = append(r.Links, crsgen.Link{Vars: "ARGS", Op: "@rx", Operand: fmt.Sprintf("old-%s-%d", id, k)})
			}
			rf.Rules = append(rf.Rules, r)
		}
		// an untargeted rule in between
		rf.Rules = append(rf.Rules, crsgen.Rule{ID: p + "999", Links: []crsgen.Link{{Vars: "ARGS", Op: "@rx", Operand: "untargeted"}}})
		c.Rules = append(c.Rules, rf)
	}
	// stray .ra files that are not rule files, sorting before, between and after the rule files
	for _, name := range []string{"0-scratch.ra", "932105-draft.ra", "932100.bak.ra", "notes.ra", "zz.ra"} {
		if rapid.IntRange(0, 2).Draw(t, "stray") == 0 {
			c.Stray[name] = "stray entry\n"
			lab["stray-assembly-file"] = true
		}
	}
	// word lists below include/ and exclude/ whose names look like rule ids, and a directory named like an
	// assembly file: none of them is the assembly file of a rule
	for _, name := range []string{"include/932100.ra", "exclude/941100.ra", "include/932110-chain1.ra", "include/949999.ra"} {
		if rapid.IntRange(0, 5).Draw(t, "rulenamedlist") == 0 {
			c.Stray[name] = "word list named like a rule\nsecond word\n"
			lab["include-file-named-like-a-rule"] = true
		}
	}
	// other sub-directories with copies named like rule files (drafts, an archive): only the assembly directory itself holds rule files
	for _, name := range []string{"drafts/932100.ra", "old/archive/941100-chain1.ra", "drafts/932110.ra"} {
		if rapid.IntRange(0, 7).Draw(t, "subdircopy") == 0 {
			c.Stray[name] = "draft copy\nin a sub-directory\n"
			lab["copy-named-like-a-rule-in-a-sub-directory"] = true
		}
	}
	if rapid.IntRange(0, 5).Draw(t, "emptyinclude") == 0 {
		// a word list of zero bytes: format gives it the header like any other file
		c.Include["include/empty.ra"] = ""
		lab["zero-byte-assembly-file"] = true
	}
	c.ViaLink = rapid.IntRange(0, 5).Draw(t, "vialink") == 0
	if c.ViaLink {
		lab["root-reached-through-a-symbolic-link"] = true
	}
	if rapid.IntRange(0, 7).Draw(t, "dirnamedra") == 0 {
		c.Stray["932205.ra/inside.txt"] = "a directory named like an assembly file\n"
		lab["directory-named-like-an-assembly-file"] = true
	}
	idx := make([]int, n)
	for i := range idx {
		idx[i] = i
	}
	c.Perm = rapid.Permutation(idx).Draw(t, "order")
	c.Mode = rapid.SampledFrom([]string{"update", "update", "format", "compare", "format-check"}).Draw(t, "mode")
	if c.Mode == "compare" || c.Mode == "format-check" {
		// compare: files updated beforehand; format-check: files formatted beforehand
		for i := 0; i < n; i++ {
			if rapid.Bool().Draw(t, "preupd") {
				c.PreUpd = append(c.PreUpd, i)
			}
		}
	}
	if c.Mode == "format" && n >= 2 && rapid.IntRange(0, 2).Draw(t, "unbalanced") == 0 {
		// a file that format cannot process (one end marker too many): the other files must still be formatted
		i := rapid.IntRange(0, n-1).Draw(t, "unbalancedfile")
		c.Asms[i].Main = append(c.Asms[i].Main, ragen.Line{K: ragen.KEnd})
		c.Asms[i].Bad = true
		lab["file-format-cannot-process"] = true
	}
	if (c.Mode == "format" || c.Mode == "format-check") && n >= 2 && rapid.IntRange(0, 3).Draw(t, "unclosed") == 0 {
		// a file that ends inside a block it never closes: format lays it out all the same, and the depth it ends at
		// is nothing the next file may inherit
		i := rapid.IntRange(0, n-1).Draw(t, "unclosedfile")
		if !c.Asms[i].Bad {
			if rapid.Bool().Draw(t, "unclosedcmd") {
				c.Asms[i].Main = append(c.Asms[i].Main, ragen.Line{K: ragen.KCStart, Cmd: "unix"}, ragen.Line{K: ragen.KEntry, T: "ls"})
			} else {
				c.Asms[i].Main = append(c.Asms[i].Main, ragen.Line{K: ragen.KAStart}, ragen.Line{K: ragen.KAStart}, ragen.Line{K: ragen.KEntry, T: "open"})
			}
			lab["file-ends-inside-an-unclosed-block"] = true
		}
	}
	lab["mode:"+c.Mode] = true
	lab[fmt.Sprintf("files:%d", n)] = true
	c.Lab = labelsOf(lab)
	return c
}

func (c C08Case) tree() cli.Tree {
	cfg, _ := ragen.CRSLike()
	t := cli.Tree{"regex-assembly/toolchain.yaml": *cfg}
	for n, v := range c.Include {
		t["regex-assembly/"+n] = v
	}
	for _, a := range c.Asms {
		t["regex-assembly/"+a.Name] = ragen.Print(a.Main, "\n", true)
	}
	for n, v := range c.Stray {
		t["regex-assembly/"+n] = v
	}
	for _, rf := range c.Rules {
		text, _ := rf.Render()
		t["rules/"+rf.Name] = text
	}
	return t
}

func verdictLines(stdout string) []string {
	var out []string
	for _, l := range strings.Split(stdout, "\n") {
		if strings.HasPrefix(l, "Regex of ") {
			out = append(out, l)
		}
	}
	sort.Strings(out)
	return out
}

func checkC08(c C08Case) Outcome {
	out := Outcome{Labels: c.Lab, Detail: map[string]any{}}
	mk := func() (*cli.Sandbox, string) {
		sb := cli.NewSandbox("c08")
		root := sb.Path("crs")
		if err := c.tree().Write(root); err != nil {
			panic(err)
		}
		if c.ViaLink {
			if err := os.Symlink(root, sb.Path("link")); err != nil {
				panic(err)
			}
		}
		return sb, root
	}
	run := func(sb *cli.Sandbox, root string, args ...string) cli.Result {
		darg := root
		if c.ViaLink {
			darg = sb.Path("link")
		}
		global := []string{"-d", darg}
		if len(args) > 0 && args[0] == "-o" {
			global, args = append([]string{args[0], args[1]}, global...), args[2:]
		}
		return cli.Run(cli.Opt{Dir: sb.Root, Timeout: 60 * time.Second}, append(global, args...)...)
	}
	sa, ra := mk()
	defer sa.Close()
	sbB, rb := mk()
	defer sbB.Close()
	out.Detail["files"] = c.tree()
	out.Detail["order"] = c.Perm
	anyBad := false
	for _, a := range c.Asms {
		if a.Bad {
			anyBad = true
		}
	}
	switch c.Mode {
	case "compare":
		for _, i := range c.PreUpd {
			if c.Asms[i].Bad {
				continue
			}
			run(sa, ra, "regex", "update", c.Asms[i].arg())
			run(sbB, rb, "regex", "update", c.Asms[i].arg())
		}
	case "format-check":
		for _, i := range c.PreUpd {
			run(sa, ra, "regex", "format", c.Asms[i].arg())
			run(sbB, rb, "regex", "format", c.Asms[i].arg())
		}
	}
	var allRes cli.Result
	var singles []cli.Result
	switch c.Mode {
	case "update":
		allRes = run(sa, ra, "regex", "update", "--all")
		for _, i := range c.Perm {
			singles = append(singles, run(sbB, rb, "regex", "update", c.Asms[i].arg()))
		}
	case "format":
		allRes = run(sa, ra, "regex", "format", "--all")
		for _, i := range c.Perm {
			singles = append(singles, run(sbB, rb, "regex", "format", c.Asms[i].arg()))
		}
		singles = append(singles, run(sbB, rb, "regex", "format", "common"), run(sbB, rb, "regex", "format", "words"))
		if _, ok := c.Include["include/empty.ra"]; ok {
			singles = append(singles, run(sbB, rb, "regex", "format", "empty"))
		}
	case "format-check":
		allRes = run(sa, ra, "regex", "format", "--check", "--all")
		for _, i := range c.Perm {
			singles = append(singles, run(sbB, rb, "regex", "format", "--check", c.Asms[i].arg()))
		}
		singles = append(singles, run(sbB, rb, "regex", "format", "--check", "common"), run(sbB, rb, "regex", "format", "--check", "words"))
		if _, ok := c.Include["include/empty.ra"]; ok {
			singles = append(singles, run(sbB, rb, "regex", "format", "--check", "empty"))
		}
	case "compare":
		allRes = run(sa, ra, "regex", "compare", "--all")
		for _, i := range c.Perm {
			singles = append(singles, run(sbB, rb, "regex", "compare", c.Asms[i].arg()))
		}
	}
	out.Detail["all_exit"], out.Detail["all_stdout"] = allRes.Exit, clip(allRes.Stdout, 800)
	ta, tb := cli.ReadTree(ra), cli.ReadTree(rb)
	for _, s := range singles {
		if c.Mode == "update" && s.Exit != 0 {
			anyBad = true
		}
		if c.Mode == "compare" && s.Exit != 0 && !strings.Contains(s.Stdout, "Regex of ") {
			anyBad = true
		}
	}
	if c.Mode == "format-check" {
		// the files a single invocation can address: --all must report exactly those of them that the single checks report
		addressable := map[string]bool{"common.ra": true, "words.ra": true, "empty.ra": true}
		for _, a := range c.Asms {
			addressable[a.Name] = true
		}
		// the report names files by base name only: a stray file with the base name of an addressable one
		// (include/932100.ra next to 932100.ra) makes that name ambiguous, it is left out of the comparison
		for n := range c.Stray {
			if i := strings.LastIndexByte(n, '/'); i >= 0 {
				n = n[i+1:]
			}
			delete(addressable, n)
		}
		reported := func(stdout string) map[string]bool {
			m := map[string]bool{}
			for _, l := range strings.Split(stdout, "\n") {
				if name, ok := strings.CutSuffix(strings.TrimSpace(l), " not properly formatted"); ok {
					if i := strings.LastIndexByte(name, '/'); i >= 0 {
						name = name[i+1:]
					}
					if addressable[name] {
						m[name] = true
					}
				}
			}
			return m
		}
		ar, sr := reported(allRes.Stdout), map[string]bool{}
		singleFails := false
		for _, s := range singles {
			for n := range reported(s.Stdout) {
				sr[n] = true
			}
			if s.Exit != 0 {
				singleFails = true
			}
		}
		out.Detail["reported_by_all"], out.Detail["reported_by_singles"] = fmt.Sprint(ar), fmt.Sprint(sr)
		for n := range ar {
			if !sr[n] {
				out.Violation = "format --check --all reports " + n + " as not properly formatted, the check of that file alone does not"
				return out
			}
		}
		for n := range sr {
			if !ar[n] {
				out.Violation = "format --check of " + n + " alone reports it as not properly formatted, --check --all does not"
				return out
			}
		}
		if singleFails && allRes.Exit == 0 {
			out.Violation = "a single format --check fails but --check --all exits 0"
			return out
		}
	}
	if c.Mode != "format" && c.Mode != "format-check" && anyBad {
		// a file that cannot be processed alone must not be processed by --all either
		if allRes.Exit == 0 {
			out.Detail["all_stderr"] = tailLines(allRes.Stderr, 6)
			out.Violation = "--all succeeds although one file cannot be processed on its own (e.g. it only works with state left behind by another file)"
			return out
		}
		if c.Mode == "compare" {
			sv := map[string]bool{}
			for _, s := range singles {
				for _, l := range verdictLines(s.Stdout) {
					sv[l] = true
				}
			}
			for _, l := range verdictLines(allRes.Stdout) {
				if !sv[l] {
					out.Violation = "compare --all reports a verdict that no single invocation reports: " + l
					return out
				}
			}
		}
		// operands: untouched or what the single invocation writes; the bad file's target untouched
		orig := c.tree()
		for p, v := range ta {
			if strings.HasPrefix(p, "rules/") && v != orig[p] && v != tb[p] {
				// per line: every changed line must equal the single-invocation line
				al, ol, bl := strings.Split(v, "\n"), strings.Split(orig[p], "\n"), strings.Split(tb[p], "\n")
				for i := range al {
					if i < len(ol) && i < len(bl) && al[i] != ol[i] && al[i] != bl[i] {
						out.Detail["line"] = al[i]
						out.Violation = fmt.Sprintf("--all wrote an operand in %s that no single invocation writes", p)
						return out
					}
				}
			}
		}
		out.Labels = append(out.Labels, "all-fails-on-dependent-file")
		out.NonTrivial = true
		out.Key = fmt.Sprint(c.tree(), c.Perm, c.Mode)
		out.Sample = map[string]any{"mode": c.Mode, "files": len(c.Asms), "dependent_file": true, "all_exit": allRes.Exit}
		return out
	}
	if c.Mode == "compare" && !anyBad {
		// GitHub mode reports through the exit status (and one summary line): --all fails exactly when some single invocation fails
		ga := run(sa, ra, "-o", "github", "regex", "compare", "--all")
		singleFails := false
		for _, i := range c.Perm {
			if g := run(sbB, rb, "-o", "github", "regex", "compare", c.Asms[i].arg()); g.Exit != 0 {
				singleFails = true
			}
		}
		out.Detail["github_all_exit"], out.Detail["github_single_fails"] = ga.Exit, singleFails
		if (ga.Exit != 0) != singleFails {
			out.Violation = fmt.Sprintf("compare --all -o github exits %d although %s", ga.Exit, map[bool]string{true: "a single invocation in GitHub mode fails", false: "no single invocation in GitHub mode fails"}[singleFails])
			return out
		}
	}
	if c.Mode == "compare" {
		var sv []string
		for _, s := range singles {
			sv = append(sv, verdictLines(s.Stdout)...)
		}
		sort.Strings(sv)
		av := verdictLines(allRes.Stdout)
		out.Detail["single_verdicts"], out.Detail["all_verdicts"] = sv, av
		if strings.Join(sv, "\n") != strings.Join(av, "\n") {
			out.Violation = "compare --all reports different per-rule verdicts than the single invocations"
			return out
		}
	}
	if c.Mode == "format" {
		// files that cannot be addressed by a single invocation (exclude files, stray files) are left out
		for _, t := range []cli.Tree{ta, tb} {
			for p := range t {
				if strings.HasPrefix(p, "regex-assembly/exclude/") {
					delete(t, p)
				}
			}
			for n := range c.Stray {
				delete(t, "regex-assembly/"+n)
			}
		}
	}
	if d := treeDiff(ta, tb); len(d) > 0 {
		out.Detail["differing_files"] = d
		for _, p := range d {
			out.Detail["all:"+p], out.Detail["singles:"+p] = ta[p], tb[p]
		}
		out.Violation = fmt.Sprintf("tree after --all differs from tree after the single invocations in %v", d)
		return out
	}
	if c.Mode == "update" {
		for i, s := range singles {
			if (s.Exit == 0) != (allRes.Exit == 0) && allRes.Exit == 0 {
				out.Violation = fmt.Sprintf("single invocation %d exits %d but --all exits 0", i, s.Exit)
				return out
			}
		}
	}
	out.NonTrivial = len(c.Asms) >= 2 && (hasLabel(c.Lab, "shared-names") || hasLabel(c.Lab, "chain-offset>0"))
	out.Key = fmt.Sprint(c.tree(), c.Perm, c.Mode)
	var names []string
	for _, a := range c.Asms {
		names = append(names, a.Name)
	}
	out.Sample = map[string]any{"mode": c.Mode, "assembly_files": names, "single_order": c.Perm, "all_exit": allRes.Exit, "all_stdout": clip(allRes.Stdout, 300)}
	return out
}

func treeDiff(a, b cli.Tree) []string {
	var d []string
	for p, v := range a {
		if b[p] != v {
			d = append(d, p)
		}
	}
	for p := range b {
		if _, ok := a[p]; !ok {
			d = append(d, p)
		}
	}
	sort.Strings(d)
	return d
}

func TestC08(t *testing.T) { RunProp(t, "C08", genC08, checkC08) }
