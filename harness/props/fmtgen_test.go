package props

import (
	"strings"

	"pgregory.net/rapid"

	"verifharness/ragen"
)

const raHeader = "##! Please refer to the documentation at\n##! https://coreruleset.org/docs/development/regex_assembly/.\n"

// FmtCase is one .ra file to be formatted.
type FmtCase struct {
	Kind    string            `json:"kind"` // structured | raw | boundary
	Lines   []ragen.Line      `json:"lines,omitempty"`
	Raw     string            `json:"raw,omitempty"` // raw / boundary content
	Files   map[string]string `json:"files,omitempty"`
	Header  string            `json:"header"` // none | full | noblank | only
	EOL     string            `json:"eol"`    // "\n" | "\r\n"
	FinalNL bool              `json:"final_nl"`
	TrailBl int               `json:"trail_blank"` // extra blank lines at the end
	Lab     []string          `json:"labels,omitempty"`
	// Target is the argument naming the file ("" = 932100): NNNNNN, NNNNNN.ra, NNNNNN-chainK[.ra]. For chained
	// targets the chain starter's file 932100.ra exists too (unformatted) and must stay as it is.
	Target string `json:"target,omitempty"`
	// Trace: format runs with -l trace
	Trace bool `json:"trace,omitempty"`
}

// Global returns the global arguments in front of `regex format`.
func (c FmtCase) Global(root string) []string {
	if c.Trace {
		return []string{"-l", "trace", "-d", root}
	}
	return []string{"-d", root}
}

func (c FmtCase) Arg() string {
	if c.Target == "" {
		return "932100"
	}
	return c.Target
}

// FileRel is the path (below the CRS root) of the file the argument names.
func (c FmtCase) FileRel() string {
	return "regex-assembly/" + strings.TrimSuffix(c.Arg(), ".ra") + ".ra"
}

const fmtSibling = "  sibling of the chained file\n##!>   assemble\nx\n##!<\n\n\n"

// Sibling adds the chain starter's file for chained targets.
func (c FmtCase) Sibling(tree map[string]string) {
	if strings.Contains(c.Arg(), "-chain") {
		tree["regex-assembly/932100.ra"] = fmtSibling
	}
}

// Content renders the file bytes.
func (c FmtCase) Content() string {
	if c.Kind != "structured" {
		return c.Raw
	}
	body := ragen.Print(c.Lines, c.EOL, true)
	head := ""
	switch c.Header {
	case "full":
		head = strings.ReplaceAll(raHeader, "\n", c.EOL) + c.EOL
	case "noblank":
		head = strings.ReplaceAll(raHeader, "\n", c.EOL)
	}
	s := head + body + strings.Repeat(c.EOL, c.TrailBl)
	if !c.FinalNL {
		s = strings.TrimSuffix(s, c.EOL)
	}
	return s
}

var rawTokens = []string{"##!>", "##!> ", "##!>  ", "##!<", "##!< ", "##!=>", "##!=> ", "##!=<", "##!=< ", "##!^", "##!^ ", "##!$", "##!$ ", "##!+", "##!+ ", "##!", "##! ", "##", "#",
	"assemble", "cmdline", "cmdline unix", "cmdline windows", "cmdline  unix  extra", "include", "include ", "include-except", "include-except ", "define", "define x y", "define  n   v ", "--", " -- ", `""`, "f0", "f1", "x", "s0", "i", "s", "is",
	" ", "  ", "\t", "foo", "bar|baz", "a b", "(?:x)", "[a-z]+", "\\s", "{{x}}", "é", "\"", "trailing  "}

func genFmtCase(t *rapid.T, disagree bool) FmtCase {
	c := FmtCase{EOL: "\n", FinalNL: true, Header: "none", Files: map[string]string{}}
	kind := rapid.SampledFrom([]string{"structured", "structured", "structured", "structured", "raw", "boundary"}).Draw(t, "kind")
	c.Kind = kind
	c.Target = rapid.SampledFrom([]string{"", "", "", "932100.ra", "932100-chain2", "932100-chain2.ra", "932100-chain255"}).Draw(t, "target")
	c.Trace = rapid.IntRange(0, 5).Draw(t, "trace") == 0
	switch kind {
	case "boundary":
		c.Raw = rapid.SampledFrom([]string{"", "\n", "\n\n\n", "   ", " \t \n", "\r\n", raHeader, raHeader + "\n", raHeader + "\n\n\n", strings.TrimSuffix(raHeader, "\n"), raHeader + "foo", raHeader + "\nfoo", raHeader + "\nfoo\n\n\n", "foo", "foo\n\n", "\n\nfoo", "##!> assemble\n##!<", "##!> assemble\nfoo\n"}).Draw(t, "boundary")
		c.Lab = []string{"boundary"}
		return c
	case "raw":
		var sb strings.Builder
		n := rapid.IntRange(0, 10).Draw(t, "rawlines")
		for i := 0; i < n; i++ {
			m := rapid.IntRange(0, 4).Draw(t, "rawtoks")
			for j := 0; j < m; j++ {
				sb.WriteString(rapid.SampledFrom(rawTokens).Draw(t, "tok"))
			}
			sb.WriteString(rapid.SampledFrom([]string{"\n", "\n", "\n", "\n", "\n", "\r\n", "\n\n", "\r\r\n", "\r\r\r\n", "\r\r\r\r\n", "\r\r\r\r\r\r\r\n"}).Draw(t, "raweol"))
		}
		c.Raw = sb.String()
		if rapid.IntRange(0, 3).Draw(t, "rawnofinal") == 0 {
			c.Raw = strings.TrimRight(c.Raw, "\r\n")
		}
		if rapid.IntRange(0, 3).Draw(t, "rawheader") == 0 {
			c.Raw = raHeader + "\n" + c.Raw
		}
		c.Lab = []string{"raw"}
		return c
	}
	o := ragen.GenOpt{
		Rx:       ragen.RxOpt{Stress: 5, MaxDepth: 1},
		MaxDepth: 3, MaxItems: 6, Flags: true, PrefixSuffix: true, Defs: true, DefsInPS: true,
		Includes: true, Excepts: true, Pairs: true, Cmdline: true, StoreLoad: true, Noise: true, TrailWS: true,
	}
	g := ragen.GenProgram(t, o)
	c.Lines = g.Prog.Main
	// occasionally wrap everything in 4..8 further blocks: indentation must keep growing by two per level
	if rapid.IntRange(0, 7).Draw(t, "deep") == 0 {
		extra := rapid.IntRange(4, 8).Draw(t, "deeplevels")
		var wrapped []ragen.Line
		for i := 0; i < extra; i++ {
			wrapped = append(wrapped, ragen.Line{K: ragen.KAStart, Ind: rapid.SampledFrom([]string{"", " ", "\t"}).Draw(t, "deepind")})
		}
		// flags / prefix / suffix / define lines stay where they are; the rest moves inside
		wrapped = append(wrapped, c.Lines...)
		for i := 0; i < extra; i++ {
			wrapped = append(wrapped, ragen.Line{K: ragen.KEnd})
		}
		c.Lines = wrapped
		g.Labels["nesting>=5"] = true
	}
	for n, l := range g.Prog.Files {
		c.Files[n] = ragen.Print(l, "\n", true)
	}
	lab := g.Labels
	// flag / prefix / suffix lines may also stand inside blocks (they still go to column 0)
	if rapid.IntRange(0, 3).Draw(t, "innerflag") == 0 && len(c.Lines) > 2 {
		pos := rapid.IntRange(1, len(c.Lines)-1).Draw(t, "innerpos")
		l := ragen.Line{K: rapid.SampledFrom([]string{ragen.KPrefix, ragen.KSuffix}).Draw(t, "innerk"), T: "q", Ind: "   "}
		c.Lines = append(c.Lines[:pos], append([]ragen.Line{l}, c.Lines[pos:]...)...)
		lab["prefix-suffix-inside-block"] = true
	}
	if disagree && rapid.IntRange(0, 1).Draw(t, "disagree") == 0 {
		raw := rapid.SampledFrom([]string{
			"##! see ##!> include f0",
			"##! ##!> include f0",
			"##!##!> include f0 -- a b",
			"##! ##!> assemble",
			"##! ##!<",
			"##!> cmdline unix junk",
			"##!> assemble trailing words",
			"##!>assemblefoo",
			"##!> cmdlineunix",
			"##!> define n two words",
			"##!> define  n   v  ",
			"##!> include-except  f0   f1    --  a   b ",
			"##!> include f0 --  a    b",
			"##! " + strings.Repeat("long comment ", 5400),
			"##!> include f0 --",
			"##!> include-except f0 f0 --  ",
			"##!> include f0  -- ",
			"##!^",
			"##!$ ",
			"##!=>   s0",
			"##!<  junk",
			"##!< ##!> assemble",
			"\x0cfoo",
			"\x0b##!+ i",
			"\u00a0baz",
			"\x0c##!> assemble",
			"\u2003##!<",
			"\x0c",
			"\u00a0",
		}).Draw(t, "disagreeline")
		pos := rapid.IntRange(0, len(c.Lines)).Draw(t, "dpos")
		l := ragen.Line{K: ragen.KRaw, T: raw, Ind: rapid.SampledFrom([]string{"", "  ", "\t"}).Draw(t, "dind")}
		c.Lines = append(c.Lines[:pos], append([]ragen.Line{l}, c.Lines[pos:]...)...)
		lab["disagreement-line"] = true
	}
	if disagree && rapid.IntRange(0, 3).Draw(t, "labelledend") == 0 {
		// block end markers that carry a label (any line that starts with `##!<` ends a block)
		for i := range c.Lines {
			if c.Lines[i].K == ragen.KEnd && rapid.Bool().Draw(t, "labelthis") {
				c.Lines[i] = ragen.Line{K: ragen.KRaw, T: "##!< " + rapid.SampledFrom([]string{"inner block: letters", "end", "assemble"}).Draw(t, "endlabel"), Ind: c.Lines[i].Ind}
				lab["labelled-end-marker"] = true
			}
		}
	}
	if disagree && rapid.IntRange(0, 3).Draw(t, "deftrail") == 0 {
		// a definition line that ends in white space, and an entry that uses the definition
		c.Lines = append([]ragen.Line{{K: ragen.KRaw, T: "##!> define sepx [,;]" + rapid.SampledFrom([]string{" ", "  ", " \t", "\t"}).Draw(t, "deftrailws")}}, c.Lines...)
		c.Lines = append(c.Lines, ragen.Line{K: ragen.KEntry, T: "foo{{sepx}}bar"})
		lab["definition-line-with-trailing-blanks"] = true
	}
	if disagree && rapid.IntRange(0, 5).Draw(t, "unbalanced") == 0 {
		pos := rapid.IntRange(0, len(c.Lines)).Draw(t, "upos")
		c.Lines = append(c.Lines[:pos], append([]ragen.Line{{K: ragen.KEnd}}, c.Lines[pos:]...)...)
		lab["extra-end-marker"] = true
	}
	c.Header = rapid.SampledFrom([]string{"none", "none", "full", "full", "noblank"}).Draw(t, "header")
	if rapid.IntRange(0, 5).Draw(t, "crlf") == 0 {
		c.EOL = "\r\n"
		lab["crlf"] = true
	}
	c.FinalNL = rapid.IntRange(0, 3).Draw(t, "finalnl") != 0
	c.TrailBl = rapid.SampledFrom([]int{0, 0, 0, 1, 3}).Draw(t, "trailblank")
	lab["header:"+c.Header] = true
	c.Lab = labelsOf(lab)
	return c
}
