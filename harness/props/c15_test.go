package props

import (
	"fmt"
	"path"
	"regexp"
	"strings"
	"testing"
	"time"

	"pgregory.net/rapid"

	"verifharness/cli"
)

// C15 — inspecting commands never write; rewriting commands touch only their targets.

type C15Case struct {
	Cmd     string   `json:"cmd"`    // see c15Cmds
	Target  string   `json:"target"` // single target argument ("" with --all)
	All     bool     `json:"all"`
	Github  bool     `json:"github"`
	RootSel string   `json:"root_sel"` // outer | inner
	DirArg  string   `json:"dir_arg"`  // root | rules | regex-assembly | include | tests
	Decoys  []string `json:"decoys"`   // decoy paths (relative to the selected root) that are present
	Dirty   bool     `json:"dirty"`    // targets need rewriting (unformatted / misnumbered / stale)
	Extra   []string `json:"extra_assembly,omitempty"`
	// RootName is the directory name of the outer CRS root ("" = crs). Names with glob metacharacters come
	// with a sibling directory that such a pattern would match (crs1), holding a full stale copy of the root.
	RootName string `json:"root_name,omitempty"`
	// Upper: the assembly files carry `##!+ i` and an upper-case letter inside a class (format's lint fires)
	Upper bool `json:"upper,omitempty"`
	// OddEOF: the test files end without newline / with several (numbering aside, a rewrite would change them)
	OddEOF string `json:"odd_eof,omitempty"`
}

var c15RootNames = []string{"", "", "", "crs[12]", "crs[!x]", "crs 1", "crs{1}"}

var c15Cmds = []string{"generate", "generate-stdin", "compare", "compare", "format-check", "format-check", "renumber-check", "renumber-check", "version", "completion", "format", "format", "format", "update", "update", "update", "renumber", "renumber", "renumber", "update-copyright", "update-copyright"}

var c15DecoyPool = []string{
	"regex-assembly/932100.ra.bak", "regex-assembly/932100.ra~", "regex-assembly/notes.md", "regex-assembly/x.ra/", "regex-assembly/x.ra/inside.txt", "regex-assembly/include/readme.txt", "regex-assembly/.hidden.ra.swp", "regex-assembly/data.raw",
	"rules/REQUEST-932-APPLICATION-ATTACK-RCE.bak", "rules/#REQUEST-932-APPLICATION-ATTACK-RCE.conf#", "rules/REQUEST-932-APPLICATION-ATTACK-RCE.conf.orig", "rules/REQUEST-932-APPLICATION-ATTACK-RCE.conf~", "rules/unix-shell.data", "rules/README.example.md", "rules/backup.conf.d/",
	"tests/regression/tests/REQUEST-932/9321000.yaml", "tests/regression/tests/REQUEST-932/932100.yaml.bak", "tests/regression/tests/REQUEST-932/932100.yaml~", "tests/regression/tests/REQUEST-932/notes.txt", "tests/regression/tests/REQUEST-932/93210.yaml", "tests/regression/tests/REQUEST-932/932100.json", "tests/regression/README.md",
	"tests/regression/tests/REQUEST-932/932101", "tests/regression/tests/REQUEST-932/932120.json", "tests/regression/tests/REQUEST-932/932130.yaml.disabled", "tests/regression/tests/REQUEST-932/932140.txt",
	"crs-setup.conf.example.bak", "docs/example.md", "crs-setup.conf.example.tmp", "rules/REQUEST-932-APPLICATION-ATTACK-RCE.conf.tmp", "rules/REQUEST-901-INITIALIZATION.conf.tmp", "regex-assembly/932100.ra.tmp", "tests/regression/tests/REQUEST-932/932100.yaml.tmp",
	"rules/A-COPY-932-APPLICATION-ATTACK-RCE.conf", "rules/zz-932-merged.conf",
	"regex-assembly-archive/old.ra", "regex-assembly.bak/932100.ra", "rules-old/REQUEST-932-APPLICATION-ATTACK-RCE.conf", "util/tool.confx", "INSTALL", ".github/workflows/x.yaml",
}

func genC15(t *rapid.T) C15Case {
	c := C15Case{Cmd: rapid.SampledFrom(c15Cmds).Draw(t, "cmd")}
	c.RootSel = rapid.SampledFrom([]string{"outer", "outer", "inner"}).Draw(t, "rootsel")
	c.DirArg = rapid.SampledFrom([]string{"root", "root", "rules", "regex-assembly", "include", "tests", "outside", "outside-sub"}).Draw(t, "dirarg")
	c.Dirty = rapid.IntRange(0, 3).Draw(t, "dirty") != 0
	c.Github = rapid.IntRange(0, 3).Draw(t, "github") == 0
	switch c.Cmd {
	case "compare", "format", "format-check", "update", "renumber", "renumber-check":
		c.All = rapid.Bool().Draw(t, "all")
	}
	if !c.All {
		switch c.Cmd {
		case "format", "format-check":
			// rule arguments, include names, and names that are neither (other extensions, paths that leave the include directory)
			c.Target = rapid.SampledFrom([]string{"932100", "932100.ra", "932110-chain1", "shared", "shared", "notes.txt", "data.raw", "../../rules/REQUEST-932-APPLICATION-ATTACK-RCE.conf", "../../../outside/notes.conf", "../../crs-setup.conf.example", "../../regex-assembly-archive/old", "../../regex-assembly.bak/932100.ra"}).Draw(t, "target")
		case "renumber", "renumber-check":
			c.Target = rapid.SampledFrom([]string{"932100", "932100.yaml", "932110", "932120", "932120.json", "932130", "932140"}).Draw(t, "target")
		default:
			c.Target = rapid.SampledFrom([]string{"932100", "932110-chain1"}).Draw(t, "target")
		}
	}
	c.RootName = rapid.SampledFrom(c15RootNames).Draw(t, "rootname")
	c.Upper = rapid.IntRange(0, 3).Draw(t, "upper") == 0
	c.OddEOF = rapid.SampledFrom([]string{"", "", "", "none", "\n\n\n", "\n  \n"}).Draw(t, "oddeof")
	n := rapid.IntRange(3, 12).Draw(t, "ndecoys")
	c.Decoys = rapid.Permutation(c15DecoyPool).Draw(t, "decoys")[:n]
	if openFinding("D18") {
		var d []string
		for _, p := range c.Decoys {
			if !regexp.MustCompile(`/\d{6}$`).MatchString(p) {
				d = append(d, p)
			}
		}
		c.Decoys = d
	}
	return c
}

func c15RootFiles(tag string, dirty bool, upper ...bool) cli.Tree {
	up := len(upper) > 0 && upper[0]
	ra := func(w string) string {
		if up && dirty {
			return "##!+   i\n  " + w + tag + "[A-Z]x\n##!>   assemble\n" + w + "2\n##!<\n\n\n"
		}
		if up {
			return raHeader + "\n##!+ i\n" + w + tag + "[A-Z]x\n##!> assemble\n  " + w + "2\n##!<\n"
		}
		if dirty {
			return "  " + w + tag + "\n##!>   assemble\n" + w + "2\n##!<\n\n\n"
		}
		return raHeader + "\n" + w + tag + "\n##!> assemble\n  " + w + "2\n##!<\n"
	}
	ids := "  - test_id: 1\n    desc: a\n  - test_id: 2\n"
	ver := "4.1.0"
	year := "2026"
	if dirty {
		ids = "  - test_id: 5\n    desc: a\n  - test_id: 9\n"
		ver, year = "4.0.0", "2024"
	}
	rules := "# OWASP CRS ver." + ver + "\n# Copyright (c) 2021-" + year + " CRS project. All rights reserved.\n\n" +
		"SecRule ARGS \"@rx old\" \\\n    \"id:932100,\\\n    ver:'OWASP_CRS/" + ver + "',\\\n    t:none\"\n\n" +
		"SecRule ARGS \"@rx first\" \\\n    \"id:932110,\\\n    t:none,\\\n    chain\"\n    SecRule ARGS \"@rx second\" \\\n        \"t:none\"\n"
	return cli.Tree{
		"regex-assembly/932100.ra":                       ra("alpha"),
		"regex-assembly/932110-chain1.ra":                ra("bravo"),
		"regex-assembly/include/shared.ra":               ra("shared"),
		"regex-assembly/exclude/ex.ra":                   ra("excl"),
		"regex-assembly/toolchain.yaml":                  "patterns:\n  anti_evasion:\n    unix: x\n",
		"rules/REQUEST-932-APPLICATION-ATTACK-RCE.conf":  rules,
		"rules/REQUEST-901-INITIALIZATION.conf":          "# OWASP CRS ver." + ver + "\n# Copyright (c) 2021-" + year + " CRS project. All rights reserved.\nSecComponentSignature \"OWASP_CRS/" + ver + "\"\n",
		"crs-setup.conf.example":                         "# OWASP CRS ver." + ver + "\nSecAction \"id:900990,setvar:tx.crs_setup_version=" + onlyDigits(ver) + "\"\n",
		"tests/regression/tests/REQUEST-932/932100.yaml": "---\ntests:\n" + ids,
		"tests/regression/tests/REQUEST-932/932110.yml":  "---\ntests:\n" + ids,
	}
}

func decoyContent(p string) string {
	switch {
	case strings.Contains(p, "rules/") && strings.Contains(p, "-932-"):
		// a stale copy of the rules file: it contains the rules, so it could be mistaken for the real file
		return c15RootFiles("_copy", true)["rules/REQUEST-932-APPLICATION-ATTACK-RCE.conf"]
	case strings.Contains(p, "tests/"):
		return "---\ntests:\n  - test_id: 77\n  - test_id: 78\n"
	case strings.Contains(p, "regex-assembly/"):
		return "   decoy entry\n##!>assemble\nx\n##!<\n"
	}
	return "# OWASP CRS ver.3.0.0\n# Copyright (c) 2021-2020 CRS project. All rights reserved.\nSecComponentSignature \"OWASP_CRS/3.0.0\"\n"
}

func checkC15(c C15Case) Outcome {
	lab := []string{"cmd:" + c.Cmd, "root:" + c.RootSel, "dirarg:" + c.DirArg}
	if c.All {
		lab = append(lab, "all")
	}
	if c.Github {
		lab = append(lab, "github")
	}
	if c.Dirty {
		lab = append(lab, "targets-need-rewriting")
	}
	out := Outcome{Labels: lab, Detail: map[string]any{"case": c}}
	sb := cli.NewSandbox("c15")
	defer sb.Close()
	// S/: outside/, home/, crs/ (outer root) with crs/vendor/inner (inner root)
	tree := cli.Tree{"outside/tests/regression/tests/R/932100.yaml": decoyContent("tests/"), "outside/rules/REQUEST-932-X.conf": decoyContent("x"), "outside/crs-setup.conf.example": decoyContent("x"), "outside/notes.conf": decoyContent("x"), "outside/932100.ra": decoyContent("regex-assembly/"), "outside/932100.yaml": decoyContent("tests/"), "home/": "", "outside/regex-assembly-not/x.ra": "x\n"}
	rootName := c.RootName
	if rootName == "" {
		rootName = "crs"
	}
	if rootName != "crs" {
		lab = append(lab, "root-name-with-metacharacter")
		out.Labels = lab
		// the directory a glob built from the root's path would match instead of (or besides) the root
		for p, v := range c15RootFiles("_sibling", true, c.Upper) {
			tree["crs1/"+p] = v
			tree["crs1/vendor/inner/"+p] = v
		}
	}
	if c.Upper {
		lab = append(lab, "ignore-case-flag-with-upper-case-class")
		out.Labels = lab
	}
	for p, v := range c15RootFiles("_outer", c.Dirty, c.Upper) {
		tree[rootName+"/"+p] = v
	}
	for p, v := range c15RootFiles("_inner", c.Dirty, c.Upper) {
		tree[rootName+"/vendor/inner/"+p] = v
	}
	sel := rootName
	if c.RootSel == "inner" {
		sel = rootName + "/vendor/inner"
	}
	// sibling directories whose names start like the assembly directory's
	tree[sel+"/regex-assembly-archive/old.ra"] = decoyContent("regex-assembly/")
	tree[sel+"/regex-assembly.bak/932100.ra"] = decoyContent("regex-assembly/")
	// assembly files named like a rule's in nested directories that are neither include/ nor exclude/, and a rules
	// file holding that rule which no top-level assembly file addresses
	tree[sel+"/regex-assembly/archive/942100.ra"] = decoyContent("regex-assembly/")
	tree[sel+"/regex-assembly/archive/old/942110.ra"] = decoyContent("regex-assembly/")
	tree[sel+"/rules/REQUEST-942-APPLICATION-ATTACK-SQLI.conf"] = "SecRule ARGS \"@rx stale\" \\\n    \"id:942100,\\\n    t:none\"\n\nSecRule ARGS \"@rx stale2\" \\\n    \"id:942110,\\\n    t:none\"\n"
	// files in the include directory that are no assembly files
	tree[sel+"/regex-assembly/include/notes.txt"] = decoyContent("regex-assembly/")
	tree[sel+"/regex-assembly/include/data.raw"] = decoyContent("regex-assembly/")
	if c.OddEOF != "" {
		for p, v := range tree {
			if strings.HasPrefix(p, sel+"/tests/") && (strings.HasSuffix(p, ".yaml") || strings.HasSuffix(p, ".yml")) {
				if c.OddEOF == "none" {
					tree[p] = strings.TrimSuffix(v, "\n")
				} else {
					tree[p] = v + strings.TrimPrefix(c.OddEOF, "\n")
				}
			}
		}
		lab = append(lab, "test-files-with-odd-end")
		out.Labels = lab
	}
	for _, d := range c.Decoys {
		if strings.HasSuffix(d, "/") {
			tree[sel+"/"+d] = ""
		} else {
			tree[sel+"/"+d] = decoyContent(d)
		}
	}
	if err := tree.Write(sb.Root); err != nil {
		panic(err)
	}
	cli.Freeze(sb.Root)
	dir := sel
	switch c.DirArg {
	case "rules":
		dir = sel + "/rules"
	case "regex-assembly":
		dir = sel + "/regex-assembly"
	case "include":
		dir = sel + "/regex-assembly/include"
	case "tests":
		dir = sel + "/tests/regression/tests/REQUEST-932"
	case "outside":
		// not a CRS root and not below one: every command must refuse and write nothing
		dir = "outside"
	case "outside-sub":
		dir = "outside/tests/regression/tests"
	}
	args := []string{"-d", sb.Path(dir)}
	if c.Github {
		args = append(args, "-o", "github")
	}
	stdin := ""
	tgt := func(a ...string) []string {
		if c.All {
			return append(a, "--all")
		}
		return append(a, c.Target)
	}
	switch c.Cmd {
	case "generate":
		args = append(args, "regex", "generate", c.Target)
	case "generate-stdin":
		args, stdin = append(args, "regex", "generate", "-"), "foo\n##!> include shared\n"
	case "compare":
		args = append(args, tgt("regex", "compare")...)
	case "format-check":
		args = append(args, tgt("regex", "format", "--check")...)
	case "format":
		args = append(args, tgt("regex", "format")...)
	case "renumber-check":
		args = append(args, tgt("util", "renumber-tests", "--check")...)
	case "renumber":
		args = append(args, tgt("util", "renumber-tests")...)
	case "update":
		args = append(args, tgt("regex", "update")...)
	case "update-copyright":
		args = append(args, "chore", "update-copyright", "-v", "4.2.0", "-y", "2027")
	case "version":
		args = append(args, "version")
	case "completion":
		args = append(args, "completion", "bash")
	}
	before := cli.Snap(sb.Root)
	r := cli.Run(cli.Opt{Dir: sb.Path("outside"), Home: sb.Path("home"), Stdin: stdin, Timeout: 30 * time.Second}, args...)
	after := cli.Snap(sb.Root)
	changed := cli.Diff(before, after, false)
	out.Detail["argv"], out.Detail["exit"], out.Detail["changed"] = strings.Join(args[2:], " "), r.Exit, changed
	out.Detail["stderr"] = tailLines(r.Stderr, 4)
	allowed := func(p string) bool {
		if strings.HasPrefix(c.DirArg, "outside") {
			return false
		}
		if !strings.HasPrefix(p, sel+"/") {
			return false
		}
		rel := strings.TrimPrefix(p, sel+"/")
		if c.RootSel == "outer" && strings.HasPrefix(rel, "vendor/inner/") && c.Cmd != "update-copyright" {
			return false
		}
		base := path.Base(rel)
		switch c.Cmd {
		case "format":
			if !strings.HasPrefix(rel, "regex-assembly/") || !strings.HasSuffix(base, ".ra") {
				return false
			}
			if c.All {
				return true
			}
			want := strings.TrimSuffix(c.Target, ".ra") + ".ra"
			return base == want
		case "update":
			if c.All {
				return rel == "rules/REQUEST-932-APPLICATION-ATTACK-RCE.conf"
			}
			return rel == "rules/REQUEST-932-APPLICATION-ATTACK-RCE.conf"
		case "renumber":
			if !strings.HasPrefix(rel, "tests/regression/tests/") || !regexp.MustCompile(`^\d{6}\.ya?ml$`).MatchString(base) {
				return false
			}
			if c.All {
				return true
			}
			return strings.HasPrefix(base, strings.TrimSuffix(c.Target, ".yaml")+".")
		case "update-copyright":
			return strings.HasSuffix(base, ".conf") || strings.HasSuffix(base, ".example")
		}
		return false
	}
	for _, ch := range changed {
		p := ch[1:]
		if before[p].Dir || after[p].Dir {
			if ch[0] == '~' {
				continue // directory metadata
			}
		}
		if !allowed(p) {
			out.Detail["offending"] = ch
			out.Violation = fmt.Sprintf("`%s` changed %s, which is not among its targets", strings.Join(args[2:], " "), ch)
			return out
		}
	}
	if f := cli.RuntimeFault(r.Stderr); f != "" {
		out.Violation = "runtime fault: " + f
		return out
	}
	wrote := 0
	for _, ch := range changed {
		if !before[ch[1:]].Dir {
			wrote++
		}
	}
	if wrote > 0 {
		out.Labels = append(out.Labels, "wrote-targets")
	}
	out.NonTrivial = len(c.Decoys) >= 3
	out.Key = fmt.Sprintf("%v", c)
	out.Sample = map[string]any{"argv": strings.Join(args[2:], " "), "dir_arg": dir, "decoys": len(c.Decoys), "exit": r.Exit, "changed": changed}
	return out
}

func TestC15(t *testing.T) { RunProp(t, "C15", genC15, checkC15) }
