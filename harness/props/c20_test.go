package props

import (
	"archive/tar"
	"archive/zip"
	"bytes"
	"compress/gzip"
	"crypto/sha256"
	"encoding/hex"
	"fmt"
	"io"
	"os"
	"path/filepath"
	"regexp"
	"strconv"
	"strings"
	"sync"
	"testing"
	"time"

	"pgregory.net/rapid"

	"verifharness/cli"
	"verifharness/relsrv"
)

// C20 — self-update installs only a newer, checksum-verified release for this platform.

type C20Rel struct {
	Tag      string `json:"tag"`
	Draft    bool   `json:"draft,omitempty"`
	Pre      bool   `json:"prerelease,omitempty"`
	Platform string `json:"platform"`        // this | other | both | none
	Archive  string `json:"archive"`         // tar.gz | zip | raw | corrupt | noexe
	Checksum string `json:"checksum"`        // ok | absent | wrong | other-file | malformed | missing-entry
	Extra    string `json:"extra,omitempty"` // further assets named like this platform's: deb-before | deb-after | sbom-before
}

type C20Case struct {
	Running string   `json:"running"` // dev | v1.5.0 | v2.0.0 | none
	Rels    []C20Rel `json:"releases"`
	Fault   string   `json:"fault,omitempty"`
	// TwoPhase: a successful update to a real executable first, then a second invocation against a
	// catalogue whose newest release cannot be installed (Second says why): the executable must stay
	// what the first update installed
	TwoPhase bool   `json:"two_phase,omitempty"`
	Second   string `json:"second,omitempty"` // wrong | missing-entry | corrupt | asset-500 | checksum-404
}

const checksumName = "crs-toolchain-checksums.txt"

var (
	relOnce sync.Once
	relSrv  *relsrv.Server
	relErr  error
)

func server() (*relsrv.Server, error) {
	relOnce.Do(func() { relSrv, relErr = relsrv.Start(checksumName) })
	return relSrv, relErr
}

var c20Tags = []string{"v1.0.0", "v1.5.0", "v1.5.1", "v2.0.0", "v2.1.0-rc1", "v2.1.0", "v3.0.0", "1.6.0", "release-2.2.0", "v1.2", "nightly", "v10.0.0", "v2.0.1-beta", "v2.0.0-rc1", "v1.5.0-rc2", "v2.0.0-beta.1"}

func genC20(t *rapid.T) C20Case {
	if rapid.IntRange(0, 11).Draw(t, "twophase") == 0 {
		return C20Case{Running: rapid.SampledFrom([]string{"dev", "v1.5.0", "none"}).Draw(t, "running2"), TwoPhase: true,
			Second: rapid.SampledFrom([]string{"wrong", "missing-entry", "corrupt", "asset-500", "checksum-404"}).Draw(t, "second")}
	}
	c := C20Case{Running: rapid.SampledFrom([]string{"dev", "dev", "v1.5.0", "v1.5.0", "v2.0.0", "none", "v2.1.0-rc1", "v2.1.0-rc1"}).Draw(t, "running")}
	if rapid.IntRange(0, 6).Draw(t, "pkgbuild") == 0 {
		c.Running = "v2.0.0-pkg"
	}
	n := rapid.SampledFrom([]int{0, 1, 1, 2, 2, 2, 3, 3, 4, 5}).Draw(t, "nrels")
	tags := rapid.Permutation(c20Tags).Draw(t, "tags")[:n]
	for _, tag := range tags {
		r := C20Rel{Tag: tag}
		r.Draft = rapid.IntRange(0, 11).Draw(t, "draft") == 0
		r.Pre = rapid.IntRange(0, 9).Draw(t, "pre") == 0
		r.Platform = rapid.SampledFrom([]string{"this", "this", "this", "this", "both", "both", "both", "other", "other", "none"}).Draw(t, "platform")
		r.Archive = rapid.SampledFrom([]string{"tar.gz", "tar.gz", "tar.gz", "zip", "raw", "corrupt", "noexe"}).Draw(t, "archive")
		r.Checksum = rapid.SampledFrom([]string{"ok", "ok", "ok", "ok", "absent", "wrong", "other-file", "malformed", "missing-entry"}).Draw(t, "checksum")
		r.Extra = rapid.SampledFrom([]string{"", "", "", "deb-before", "deb-after", "sbom-before"}).Draw(t, "extra")
		c.Rels = append(c.Rels, r)
	}
	if rapid.IntRange(0, 5).Draw(t, "fault") == 0 {
		// a download fault together with a bad checksum: a fallback path must not install unverified bytes
		if len(c.Rels) > 0 && rapid.Bool().Draw(t, "faultwithbadsum") {
			c.Rels[0].Checksum = rapid.SampledFrom([]string{"wrong", "other-file", "missing-entry"}).Draw(t, "badsum")
			c.Rels[0].Platform, c.Rels[0].Archive, c.Rels[0].Draft, c.Rels[0].Pre = "this", "tar.gz", false, false
		}
		c.Fault = rapid.SampledFrom([]string{"list-500", "list-404", "list-garbage", "asset-404", "asset-404", "asset-500", "asset-500", "asset-truncated", "asset-truncated", "checksum-404", "checksum-404", "checksum-500", "checksum-500"}).Draw(t, "faultkind")
	}
	return c
}

type semv struct {
	maj, min, pat int
	pre           string
	ok            bool
}

var reVer = regexp.MustCompile(`\d+\.\d+\.\d+`)
var reSemver = regexp.MustCompile(`^v?(\d+)\.(\d+)\.(\d+)(?:-([0-9A-Za-z.-]+))?(?:\+[0-9A-Za-z.-]+)?$`)

func parseSemver(s string) semv {
	m := reSemver.FindStringSubmatch(s)
	if m == nil {
		return semv{}
	}
	a, _ := strconv.Atoi(m[1])
	b, _ := strconv.Atoi(m[2])
	c, _ := strconv.Atoi(m[3])
	return semv{a, b, c, m[4], true}
}

// tagVersion mirrors the documented tag handling of the update library: the text from the first
// x.y.z on must be a semantic version.
func tagVersion(tag string) semv {
	loc := reVer.FindStringIndex(tag)
	if loc == nil {
		return semv{}
	}
	return parseSemver(tag[loc[0]:])
}

func (a semv) cmp(b semv) int {
	for _, d := range []int{a.maj - b.maj, a.min - b.min, a.pat - b.pat} {
		if d != 0 {
			if d < 0 {
				return -1
			}
			return 1
		}
	}
	switch {
	case a.pre == b.pre:
		return 0
	case a.pre == "":
		return 1
	case b.pre == "":
		return -1
	case a.pre < b.pre:
		return -1
	}
	return 1
}

type builtAsset struct {
	name     string
	body     []byte
	exe      []byte // executable inside (nil if none / corrupt)
	thisPlat bool
}

type builtRel struct {
	spec     C20Rel
	ver      semv
	assets   []builtAsset
	checksum map[string]string // asset name -> digest listed (when the file is well formed)
	hasSum   bool
	sumOK    bool // checksum file is parseable
}

func mkTarGz(name string, content []byte) []byte {
	var buf bytes.Buffer
	gz := gzip.NewWriter(&buf)
	tw := tar.NewWriter(gz)
	_ = tw.WriteHeader(&tar.Header{Name: "README.md", Mode: 0o644, Size: 5})
	_, _ = tw.Write([]byte("hello"))
	_ = tw.WriteHeader(&tar.Header{Name: name, Mode: 0o755, Size: int64(len(content))})
	_, _ = tw.Write(content)
	_ = tw.Close()
	_ = gz.Close()
	return buf.Bytes()
}

func mkZip(name string, content []byte) []byte {
	var buf bytes.Buffer
	zw := zip.NewWriter(&buf)
	w, _ := zw.Create(name)
	_, _ = w.Write(content)
	_ = zw.Close()
	return buf.Bytes()
}

func build(c C20Case) ([]builtRel, relsrv.Catalogue) {
	var out []builtRel
	cat := relsrv.Catalogue{Fault: c.Fault}
	id := int64(1000)
	for i, r := range c.Rels {
		br := builtRel{spec: r, ver: tagVersion(r.Tag), checksum: map[string]string{}}
		vtxt := strings.TrimPrefix(r.Tag, "v")
		payload := []byte(fmt.Sprintf("#!/bin/sh\n# payload of release %s (#%d)\necho %s\n%s", r.Tag, i, r.Tag, strings.Repeat("x", 64+i)))
		mk := func(osarch string, this bool) builtAsset {
			a := builtAsset{thisPlat: this}
			base := "crs-toolchain_" + vtxt + "_" + osarch
			switch r.Archive {
			case "zip":
				a.name, a.body, a.exe = base+".zip", mkZip("crs-toolchain", payload), payload
			case "raw":
				a.name, a.body, a.exe = base, payload, payload
			case "corrupt":
				good := mkTarGz("crs-toolchain", payload)
				a.name, a.body = base+".tar.gz", append([]byte("garbage"), good[len(good)/2:]...)
			case "noexe":
				a.name, a.body = base+".tar.gz", mkTarGz("something-else", payload)
			default:
				a.name, a.body, a.exe = base+".tar.gz", mkTarGz("crs-toolchain", payload), payload
			}
			return a
		}
		extra := func() builtAsset {
			n := "crs-toolchain_" + vtxt + "_linux_amd64.deb"
			if r.Extra == "sbom-before" {
				n = "crs-toolchain_" + vtxt + "_linux_amd64.sbom.json"
			}
			return builtAsset{name: n, body: []byte("this is not the executable: " + n)}
		}
		if (r.Platform == "this" || r.Platform == "both") && (r.Extra == "deb-before" || r.Extra == "sbom-before") {
			br.assets = append(br.assets, extra())
		}
		switch r.Platform {
		case "this":
			br.assets = append(br.assets, mk("linux_amd64", true))
		case "other":
			br.assets = append(br.assets, mk("darwin_arm64", false), mk("linux_arm64", false), mk("linux_386", false), mk("darwin_amd64", false), mk("windows_amd64", false), mk("linux_armv6", false))
		case "both":
			br.assets = append(br.assets, mk("darwin_arm64", false), mk("linux_amd64", true), mk("windows_amd64", false))
		}
		if (r.Platform == "this" || r.Platform == "both") && r.Extra == "deb-after" {
			br.assets = append(br.assets, extra())
		}
		rel := relsrv.Release{ID: id, Tag: r.Tag, Draft: r.Draft, Prerelease: r.Pre}
		id++
		for _, a := range br.assets {
			rel.Assets = append(rel.Assets, relsrv.Asset{ID: id, Name: a.name, Body: a.body})
			id++
		}
		if r.Checksum != "absent" {
			var sb strings.Builder
			br.hasSum, br.sumOK = true, true
			for _, a := range br.assets {
				h := sha256.Sum256(a.body)
				d := hex.EncodeToString(h[:])
				switch r.Checksum {
				case "wrong":
					d = strings.Repeat("0", 64)
				case "other-file":
					h2 := sha256.Sum256([]byte("another file"))
					d = hex.EncodeToString(h2[:])
				case "missing-entry":
					if a.thisPlat {
						continue
					}
				}
				br.checksum[a.name] = d
				sb.WriteString(d + "  " + a.name + "\n")
			}
			if r.Checksum == "malformed" {
				sb.Reset()
				sb.WriteString("this is not a checksum file\n")
				br.sumOK = false
				br.checksum = map[string]string{}
			}
			rel.Assets = append(rel.Assets, relsrv.Asset{ID: id, Name: checksumName, Body: []byte(sb.String())})
			id++
		}
		cat.Releases = append(cat.Releases, rel)
		out = append(out, br)
	}
	return out, cat
}

func runningBinary(name string) string {
	dir := os.Getenv("VERIF_CLI_DIR")
	switch name {
	case "v1.5.0":
		return filepath.Join(dir, "crs-toolchain-v1.5.0")
	case "v2.0.0":
		return filepath.Join(dir, "crs-toolchain-v2.0.0")
	case "none":
		return filepath.Join(dir, "crs-toolchain-noversion")
	case "v2.1.0-rc1":
		return filepath.Join(dir, "crs-toolchain-v2.1.0-rc1")
	case "v2.0.0-pkg":
		return filepath.Join(dir, "crs-toolchain-v2.0.0-pkg")
	}
	return filepath.Join(dir, "crs-toolchain")
}

func fileSha(p string) string {
	f, err := os.Open(p)
	if err != nil {
		return ""
	}
	defer f.Close()
	h := sha256.New()
	_, _ = io.Copy(h, f)
	return hex.EncodeToString(h.Sum(nil))
}

func checkC20TwoPhase(c C20Case) Outcome {
	out := Outcome{Labels: []string{"two-phase", "second:" + c.Second, "running:" + c.Running}, Detail: map[string]any{"case": c}}
	srv, err := server()
	if err != nil {
		out.HarnessError = "cannot start the fake release service: " + err.Error()
		return out
	}
	realExe, err := os.ReadFile(runningBinary("v2.0.0"))
	if err != nil {
		out.HarnessError = "cannot read the v2.0.0 binary: " + err.Error()
		return out
	}
	good := mkTarGz("crs-toolchain", realExe)
	sum := func(b []byte) string { h := sha256.Sum256(b); return hex.EncodeToString(h[:]) }
	name1 := "crs-toolchain_1.9.0_linux_amd64.tar.gz"
	rel1 := relsrv.Release{ID: 1, Tag: "v1.9.0", Assets: []relsrv.Asset{{ID: 11, Name: name1, Body: good}, {ID: 12, Name: checksumName, Body: []byte(sum(good) + "  " + name1 + "\n")}}}
	srv.Set(relsrv.Catalogue{Releases: []relsrv.Release{rel1}})
	sb := cli.NewSandbox("c20b")
	defer sb.Close()
	_ = os.MkdirAll(sb.Path("bin"), 0o755)
	_ = os.MkdirAll(sb.Path("certs"), 0o755)
	exe := sb.Path("bin/crs-toolchain")
	b0, err := os.ReadFile(runningBinary(c.Running))
	if err != nil {
		out.HarnessError = err.Error()
		return out
	}
	_ = os.WriteFile(exe, b0, 0o755)
	_ = os.WriteFile(sb.Path("ca.pem"), srv.CAPEM(), 0o644)
	env := []string{"HTTPS_PROXY=http://" + srv.Addr(), "https_proxy=http://" + srv.Addr(), "HTTP_PROXY=http://" + srv.Addr(),
		"SSL_CERT_FILE=" + sb.Path("ca.pem"), "SSL_CERT_DIR=" + sb.Path("certs"), "NO_PROXY=", "GITHUB_TOKEN="}
	r1 := cli.Run(cli.Opt{Bin: exe, Dir: sb.Root, Timeout: 90 * time.Second, Env: env}, "self-update")
	after1 := fileSha(exe)
	out.Detail["first_exit"], out.Detail["first_stderr"] = r1.Exit, tailLines(r1.Stderr, 4)
	if r1.Exit != 0 || after1 != sum(realExe) {
		out.Violation = fmt.Sprintf("the first update (to a verified newer release) did not install it (exit %d)", r1.Exit)
		return out
	}
	// second catalogue: a still newer release that cannot be installed
	payload2 := []byte("#!/bin/sh\necho tampered\n")
	body2 := mkTarGz("crs-toolchain", payload2)
	name2 := "crs-toolchain_9.0.0_linux_amd64.tar.gz"
	sumLine := sum(body2) + "  " + name2 + "\n"
	fault := ""
	switch c.Second {
	case "wrong":
		sumLine = strings.Repeat("0", 64) + "  " + name2 + "\n"
	case "missing-entry":
		sumLine = sum(body2) + "  some-other-file.tar.gz\n"
	case "corrupt":
		body2 = append([]byte("garbage"), body2[len(body2)/2:]...)
		sumLine = sum(body2) + "  " + name2 + "\n"
	case "asset-500":
		fault = "asset-500"
	case "checksum-404":
		fault = "checksum-404"
	}
	rel2 := relsrv.Release{ID: 2, Tag: "v9.0.0", Assets: []relsrv.Asset{{ID: 21, Name: name2, Body: body2}, {ID: 22, Name: checksumName, Body: []byte(sumLine)}}}
	srv.Set(relsrv.Catalogue{Releases: []relsrv.Release{rel1, rel2}, Fault: fault})
	r2 := cli.Run(cli.Opt{Bin: exe, Dir: sb.Root, Timeout: 90 * time.Second, Env: env}, "self-update")
	after2 := fileSha(exe)
	out.Detail["second_exit"], out.Detail["second_stderr"], out.Detail["requests"] = r2.Exit, tailLines(r2.Stderr, 4), srv.Requests()
	if after2 != after1 {
		what := "unknown bytes"
		switch after2 {
		case sum(b0):
			what = "the executable that was running before the first update (a stale backup was restored)"
		case sum(payload2):
			what = "the unverified payload of the newest release"
		}
		out.Violation = "a failing update changed the executable: it now holds " + what
		return out
	}
	if r2.Exit == 0 {
		out.Violation = "the newest release cannot be installed, the executable is unchanged, but the command exits 0"
		return out
	}
	// nothing else may be left behind that a later run could pick up... (recorded, not judged)
	left := []string{}
	if ents, err := os.ReadDir(sb.Path("bin")); err == nil {
		for _, e := range ents {
			if e.Name() != "crs-toolchain" {
				left = append(left, e.Name())
			}
		}
	}
	out.Detail["left_in_bin"] = left
	out.NonTrivial = true
	out.Key = fmt.Sprintf("%v", c)
	out.Sample = map[string]any{"two_phase": true, "running": c.Running, "second_release_problem": c.Second, "first_exit": r1.Exit, "second_exit": r2.Exit, "left_in_bin": left}
	return out
}

func checkC20(c C20Case) Outcome {
	if c.TwoPhase {
		return checkC20TwoPhase(c)
	}
	lab := []string{"running:" + c.Running, fmt.Sprintf("releases:%d", len(c.Rels))}
	if c.Fault != "" {
		lab = append(lab, "fault:"+c.Fault)
	}
	out := Outcome{Labels: lab, Detail: map[string]any{"case": c}}
	srv, err := server()
	if err != nil {
		out.HarnessError = "cannot start the fake release service: " + err.Error()
		return out
	}
	rels, cat := build(c)
	srv.Set(cat)
	sb := cli.NewSandbox("c20")
	defer sb.Close()
	_ = os.MkdirAll(sb.Path("bin"), 0o755)
	_ = os.MkdirAll(sb.Path("certs"), 0o755)
	exe := sb.Path("bin/crs-toolchain")
	src := runningBinary(c.Running)
	if err := os.Link(src, exe); err != nil {
		b, err2 := os.ReadFile(src)
		if err2 != nil {
			out.HarnessError = "running binary missing: " + err2.Error()
			return out
		}
		_ = os.WriteFile(exe, b, 0o755)
	}
	_ = os.WriteFile(sb.Path("ca.pem"), srv.CAPEM(), 0o644)
	before := fileSha(exe)
	r := cli.Run(cli.Opt{Bin: exe, Dir: sb.Root, Timeout: 60 * time.Second, Env: []string{
		"HTTPS_PROXY=http://" + srv.Addr(), "https_proxy=http://" + srv.Addr(), "HTTP_PROXY=http://" + srv.Addr(),
		"SSL_CERT_FILE=" + sb.Path("ca.pem"), "SSL_CERT_DIR=" + sb.Path("certs"), "NO_PROXY=", "GITHUB_TOKEN=",
	}}, "self-update")
	after := fileSha(exe)
	newBytes, _ := os.ReadFile(exe)
	reqs := srv.Requests()
	out.Detail["exit"], out.Detail["stderr"], out.Detail["requests"] = r.Exit, headTail(r.Stderr, 4, 6), reqs
	out.Detail["changed"] = before != after

	running := parseSemver(map[string]string{"dev": "v0.0.0-dev", "v1.5.0": "v1.5.0", "v2.0.0": "v2.0.0", "none": "", "v2.1.0-rc1": "v2.1.0-rc1", "v2.0.0-pkg": "v2.0.0"}[c.Running])
	newer := func(v semv) bool { return !running.ok || v.cmp(running) > 0 }

	// reference: R = greatest candidate (non-draft, non-prerelease, semver tag, asset for this platform)
	var R *builtRel
	for i := range rels {
		br := &rels[i]
		if br.spec.Draft || br.spec.Pre || !br.ver.ok {
			continue
		}
		has := false
		for _, a := range br.assets {
			if a.thisPlat {
				has = true
			}
		}
		if !has {
			continue
		}
		if R == nil || br.ver.cmp(R.ver) > 0 {
			R = br
		}
	}
	verified := func(br *builtRel, a builtAsset) bool {
		if !br.hasSum || !br.sumOK {
			return false
		}
		h := sha256.Sum256(a.body)
		return br.checksum[a.name] == hex.EncodeToString(h[:])
	}

	if f := cli.RuntimeFault(r.Stderr); f != "" {
		out.Violation = "runtime fault: " + f
		return out
	}
	// SAFETY
	if before != after {
		okInstall := false
		for i := range rels {
			br := &rels[i]
			if !br.ver.ok || !newer(br.ver) {
				continue
			}
			for _, a := range br.assets {
				if a.thisPlat && a.exe != nil && bytes.Equal(a.exe, newBytes) && verified(br, a) {
					okInstall = true
				}
			}
		}
		if !okInstall {
			what := "unknown bytes"
			for i := range rels {
				for _, a := range rels[i].assets {
					if a.exe != nil && bytes.Equal(a.exe, newBytes) {
						what = fmt.Sprintf("the executable of asset %s of release %s (checksum: %s, platform match: %v, newer: %v)", a.name, rels[i].spec.Tag, rels[i].spec.Checksum, a.thisPlat, rels[i].ver.ok && newer(rels[i].ver))
					}
				}
			}
			out.Violation = "the executable was replaced by " + what + ", which is not a newer, checksum-verified asset for this platform"
			return out
		}
		if r.Exit != 0 {
			out.Violation = fmt.Sprintf("the executable was replaced but the command exits %d", r.Exit)
			return out
		}
		out.Labels = append(out.Labels, "installed")
	}
	// PROGRESS and REPORTING
	var thisAsset *builtAsset
	if R != nil {
		for i := range R.assets {
			if R.assets[i].thisPlat {
				thisAsset = &R.assets[i]
				break
			}
		}
	}
	listFault := strings.HasPrefix(c.Fault, "list-")
	switch {
	case listFault || R == nil:
		if before == after && r.Exit == 0 {
			out.Violation = "nothing could be installed (no usable release / listing failed) but the command exits 0"
			return out
		}
		out.Labels = append(out.Labels, "expect:failure-no-release")
	case !R.hasSum:
		// the statement leaves a choice when an older, still newer release is complete: either outcome is accepted
		if before == after && r.Exit == 0 {
			out.Violation = "the latest release has no checksum file, nothing was installed, but the command exits 0"
			return out
		}
		out.Labels = append(out.Labels, "expect:failure-no-checksum-file")
	case !newer(R.ver):
		if before != after {
			out.Violation = "a release that is not newer than the running version was installed"
			return out
		}
		if r.Exit != 0 {
			out.Violation = fmt.Sprintf("already at the latest version but the command exits %d", r.Exit)
			return out
		}
		out.Labels = append(out.Labels, "expect:already-latest")
	default:
		// with a download fault at the asset or the checksum file the installation must not succeed
		// silently; a verified install (SAFETY above) or a reported failure are both acceptable then
		good := thisAsset != nil && thisAsset.exe != nil && verified(R, *thisAsset) && c.Fault == ""
		if good {
			if before == after {
				out.Violation = fmt.Sprintf("release %s is newer, verified and for this platform, but it was not installed (exit %d)", R.spec.Tag, r.Exit)
				return out
			}
			out.Labels = append(out.Labels, "expect:install")
		} else {
			if before == after && r.Exit == 0 {
				out.Violation = fmt.Sprintf("release %s cannot be installed safely (checksum %s, archive %s, fault %q), the executable is unchanged, but the command exits 0", R.spec.Tag, R.spec.Checksum, R.spec.Archive, c.Fault)
				return out
			}
			out.Labels = append(out.Labels, "expect:refuse")
		}
	}
	nNewer := 0
	for i := range rels {
		if rels[i].ver.ok && newer(rels[i].ver) {
			nNewer++
		}
	}
	interesting := c.Fault != "" || nNewer >= 2
	for _, r := range c.Rels {
		if r.Checksum != "ok" || r.Archive == "corrupt" || r.Archive == "noexe" {
			interesting = true
		}
	}
	out.NonTrivial = nNewer >= 1 && interesting
	out.Key = fmt.Sprintf("%v", c)
	out.Sample = map[string]any{"running": c.Running, "releases": c.Rels, "fault": c.Fault, "exit": r.Exit, "executable_replaced": before != after, "requests": reqs}
	return out
}

func TestC20(t *testing.T) { RunProp(t, "C20", genC20, checkC20) }
