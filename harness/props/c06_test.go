package props

import (
	"fmt"
	"strings"
	"testing"

	"pgregory.net/rapid"

	"verifharness/ragen"
	"verifharness/reqv"
)

// C06 — include-except removes exactly the excluded entries and rewrites only suffixes.

type C06Case struct {
	Prog *ragen.Program `json:"prog"`
	K    int            `json:"k"`
	Lab  []string       `json:"labels,omitempty"`
}

var wordPool = []string{"cat", "ls", "curl", "wget", "nc", "bash", "sh", "perl", "python3", "php", "ruby", "lua", "awk", "sed", "gcc", "x", "ab", "abc"}

func genWordFile(t *rapid.T, label string, defs map[string]string, allowDefs bool) []ragen.Line {
	var lines []ragen.Line
	localDef := ""
	if allowDefs && rapid.IntRange(0, 3).Draw(t, label+"def") == 0 {
		localDef = "w"
		lines = append(lines, ragen.Line{K: ragen.KDefine, Name: "w", T: rapid.SampledFrom([]string{"x+", "[0-9]", "ab"}).Draw(t, label+"defv")})
		defs["w"] = lines[0].T
	}
	n := rapid.IntRange(0, 10).Draw(t, label+"n")
	for i := 0; i < n; i++ {
		switch rapid.IntRange(0, 9).Draw(t, label+"k") {
		case 0:
			lines = append(lines, ragen.Line{K: ragen.KBlank})
		case 1:
			lines = append(lines, ragen.Line{K: ragen.KComment, T: " " + rapid.SampledFrom([]string{"tools", "shells cat", "x"}).Draw(t, label+"c")})
		default:
			w := rapid.SampledFrom(wordPool).Draw(t, label+"w")
			switch rapid.IntRange(0, 8).Draw(t, label+"m") {
			case 0:
				w += "@"
			case 1:
				w += "~"
			case 2:
				if localDef != "" || len(defs) > 0 {
					w += "{{w}}"
				}
			case 3:
				// trailing white space is part of an entry: `cat ` is excluded by `cat `, not by `cat`
				w += rapid.SampledFrom([]string{" ", " ", "\t"}).Draw(t, label+"tws")
			}
			ind := ""
			if rapid.IntRange(0, 4).Draw(t, label+"ind") == 0 {
				ind = "  "
			}
			lines = append(lines, ragen.Line{K: ragen.KEntry, T: w, Ind: ind})
		}
	}
	return lines
}

func genC06(t *rapid.T) C06Case {
	p := &ragen.Program{Files: map[string][]ragen.Line{}}
	cfg, _ := ragen.CRSLike()
	p.Config = cfg
	lab := map[string]bool{}
	defs := map[string]string{}
	p.Files["include/f.ra"] = genWordFile(t, "f", defs, true)
	nx := rapid.IntRange(0, 3).Draw(t, "nx")
	var excl []string
	for i := 0; i < nx; i++ {
		name := fmt.Sprintf("x%d", i)
		dir := rapid.SampledFrom([]string{"exclude/", "exclude/", "include/"}).Draw(t, "xdir")
		p.Files[dir+name+".ra"] = genWordFile(t, name, defs, false)
		if rapid.Bool().Draw(t, "xext") {
			name += ".ra"
		}
		excl = append(excl, name)
	}
	// pairs keyed on real endings
	var pairs []string
	if rapid.IntRange(0, 1).Draw(t, "pairs") == 0 {
		ends := []string{"@", "~", "t", "s", "l", "3", "c", "sh", "rl", "x"}
		np := rapid.IntRange(1, 3).Draw(t, "np")
		used := map[string]bool{}
		for i := 0; i < np; i++ {
			old := rapid.SampledFrom(ends).Draw(t, "old")
			if used[old] {
				continue
			}
			used[old] = true
			nw := rapid.SampledFrom([]string{`""`, "z", "@", "~", "sh", "q1", `\s*"`, `"x`, `"`, `x"y`, `""""`, `[\s"']`}).Draw(t, "new")
			if nw == `""` && (old == "sh" || old == "x") {
				// deleting a whole entry has no "typed in place" counterpart: keep at least one character
				nw = "z"
			}
			if len(pairs) > 0 && rapid.IntRange(0, 2).Draw(t, "interact") == 0 {
				nw = "k" + pairs[0]
			}
			pairs = append(pairs, old, nw)
		}
		lab["suffix-pairs"] = true
	}
	var main []ragen.Line
	if rapid.IntRange(0, 3).Draw(t, "lead") == 0 {
		main = append(main, ragen.Line{K: ragen.KEntry, T: "lead"})
	}
	inCmd := rapid.IntRange(0, 3).Draw(t, "incmd") == 0
	if inCmd {
		main = append(main, ragen.Line{K: ragen.KCStart, Cmd: "unix"})
		lab["in-cmdline"] = true
	}
	if len(excl) > 0 && rapid.IntRange(0, 4).Draw(t, "useexcept") != 0 {
		main = append(main, ragen.Line{K: ragen.KExcept, File: "f", Excl: excl, Pairs: pairs, Sp: rapid.SampledFrom([]int{0, 0, 2}).Draw(t, "sp")})
		lab["include-except"] = true
	} else {
		main = append(main, ragen.Line{K: ragen.KInclude, File: "f", Pairs: pairs})
		lab["include"] = true
	}
	if inCmd {
		main = append(main, ragen.Line{K: ragen.KEnd})
	}
	// a second directive with another include file (its own definition of `w`) and the same exclude files:
	// each exclusion is expanded with the definitions of the directive's own include file
	if len(excl) > 0 && rapid.IntRange(0, 2).Draw(t, "second") == 0 {
		defs2 := map[string]string{}
		p.Files["include/g.ra"] = genWordFile(t, "g", defs2, true)
		if rapid.Bool().Draw(t, "forcedefs") {
			// both include files define `w` (differently), both list `tool{{w}}`, and the first exclude file excludes it
			vals := rapid.Permutation([]string{"x+", "[0-9]", "ab", "_v2"}).Draw(t, "wvals")
			setW := func(key, v string) {
				lines := p.Files[key]
				found := false
				for i := range lines {
					if lines[i].K == ragen.KDefine && lines[i].Name == "w" {
						lines[i].T, found = v, true
					}
				}
				if !found {
					lines = append([]ragen.Line{{K: ragen.KDefine, Name: "w", T: v}}, lines...)
				}
				p.Files[key] = append(lines, ragen.Line{K: ragen.KEntry, T: "tool{{w}}"}, ragen.Line{K: ragen.KEntry, T: "keep"})
			}
			setW("include/f.ra", vals[0])
			setW("include/g.ra", vals[1])
			for _, dir := range []string{"exclude/", "include/"} {
				k := dir + strings.TrimSuffix(excl[0], ".ra") + ".ra"
				if l, ok := p.Files[k]; ok {
					p.Files[k] = append(l, ragen.Line{K: ragen.KEntry, T: "tool{{w}}"})
				}
			}
			lab["both-include-files-define-w"] = true
			if rapid.IntRange(0, 2).Draw(t, "xownw") == 0 {
				// the exclude file defines `w` itself: inside that file the name means what the file says
				for _, dir := range []string{"exclude/", "include/"} {
					k := dir + strings.TrimSuffix(excl[0], ".ra") + ".ra"
					if l, ok := p.Files[k]; ok {
						p.Files[k] = append([]ragen.Line{{K: ragen.KDefine, Name: "w", T: vals[2]}}, l...)
					}
				}
				lab["exclude-file-defines-w-itself"] = true
				if len(excl) >= 2 {
					// the next exclude file uses `w` without defining it: there the include file's value applies
					for _, dir := range []string{"exclude/", "include/"} {
						k := dir + strings.TrimSuffix(excl[1], ".ra") + ".ra"
						if l, ok := p.Files[k]; ok {
							p.Files[k] = append(l, ragen.Line{K: ragen.KEntry, T: "tool{{w}}"})
						}
					}
					lab["later-exclude-file-uses-w-without-defining-it"] = true
				}
			}
		}
		main = append(main, ragen.Line{K: ragen.KExcept, File: "g", Excl: excl})
		lab["second-directive-same-exclude-files"] = true
	}
	if rapid.IntRange(0, 3).Draw(t, "tail") == 0 {
		main = append(main, ragen.Line{K: ragen.KEntry, T: "tail"})
	}
	p.Main = main
	k := 3
	if thorough() {
		k = 6
	}
	return C06Case{Prog: p, K: k, Lab: labelsOf(lab)}
}

func checkC06(c C06Case) Outcome {
	out := Outcome{Labels: c.Lab, Detail: map[string]any{}}
	prog := c.Prog
	seq, err := prog.Inlined(ragen.ResolveOpt{ExpandInPrefixSuffix: true, PairMode: "seq"})
	if err != nil {
		out.HarnessError = "cannot inline: " + err.Error()
		return out
	}
	first, err := prog.Inlined(ragen.ResolveOpt{ExpandInPrefixSuffix: true, PairMode: "first"})
	if err != nil {
		out.HarnessError = "cannot inline: " + err.Error()
		return out
	}
	a := generate(prog)
	out.Detail["program"] = prog.MainText()
	out.Detail["files"] = prog.Tree()
	out.Detail["by_hand"] = seq.MainText()
	out.Detail["out_directive"], out.Detail["exit_directive"] = a.Stdout, a.Exit
	// repeated runs agree (pair order must not depend on map iteration)
	for i := 1; i < c.K; i++ {
		r := generate(prog)
		if r.Stdout != a.Stdout || r.Exit != a.Exit {
			out.Detail["run_n"] = r.Stdout
			out.Violation = fmt.Sprintf("run %d gives a different result than run 0 on the same files", i)
			return out
		}
	}
	b := generate(seq)
	out.Detail["out_by_hand"], out.Detail["exit_by_hand"] = b.Stdout, b.Exit
	if a.Exit != b.Exit {
		out.Detail["stderr_directive"] = tailLines(a.Stderr, 6)
		out.Violation = fmt.Sprintf("generate exits %d with the directive and %d with the list computed by hand", a.Exit, b.Exit)
		return out
	}
	// duplicates in F make "relative order" ambiguous: compare languages then
	dups := hasDuplicateEntries(prog)
	interact := seq.MainText() != first.MainText()
	if interact {
		out.Labels = append(out.Labels, "interacting-pairs")
	}
	if dups {
		out.Labels = append(out.Labels, "duplicates-in-F")
	}
	if a.Stdout != b.Stdout {
		ok := false
		if interact {
			// second defensible reading: only the first matching pair (written order) applies
			b2 := generate(first)
			out.Detail["out_by_hand_first_pair_only"] = b2.Stdout
			ok = a.Stdout == b2.Stdout
		}
		if !ok && dups {
			cmp := reqv.Compare(a.Stdout, b.Stdout, reqv.Options{MaxState: maxStates()})
			ok = cmp.Verdict == reqv.Equal
			out.Detail["language_verdict"] = cmp.Verdict.String()
		}
		if !ok {
			out.Violation = "regex differs from that of the program where exclusion and suffix rewriting were done by hand"
			return out
		}
	}
	// non-trivial: something excluded and something surviving, or something rewritten and something not
	res, _ := prog.Resolve(prog.Main, ragen.ResolveOpt{PairMode: "seq"}, nil, 0)
	full, _ := (&ragen.Program{Main: []ragen.Line{{K: ragen.KInclude, File: "f"}}, Files: prog.Files}).Resolve([]ragen.Line{{K: ragen.KInclude, File: "f"}}, ragen.ResolveOpt{}, nil, 0)
	kept, total := 0, 0
	if res != nil {
		for _, l := range res.Body {
			if l.K == ragen.KEntry && l.T != "lead" && l.T != "tail" {
				kept++
			}
		}
	}
	rewritten := 0
	if full != nil {
		total = len(full.Body)
		set := map[string]bool{}
		for _, l := range full.Body {
			set[l.T] = true
		}
		if res != nil {
			for _, l := range res.Body {
				if l.K == ragen.KEntry && !set[l.T] && l.T != "lead" && l.T != "tail" {
					rewritten++
				}
			}
		}
	}
	if kept > 0 && kept < total {
		out.Labels = append(out.Labels, "some-excluded-some-kept")
	}
	if rewritten > 0 && rewritten < kept {
		out.Labels = append(out.Labels, "some-rewritten-some-not")
	}
	out.NonTrivial = a.Exit == 0 && ((kept > 0 && kept < total) || (rewritten > 0 && rewritten < kept))
	out.Key = prog.Canon()
	out.Sample = map[string]any{"program": prog.MainText(), "F": prog.Tree()["regex-assembly/include/f.ra"], "by_hand": seq.MainText(), "generated": clip(a.Stdout, 200)}
	return out
}

func hasDuplicateEntries(p *ragen.Program) bool {
	r, err := p.Resolve([]ragen.Line{{K: ragen.KInclude, File: "f"}}, ragen.ResolveOpt{}, nil, 0)
	if err != nil {
		return false
	}
	seen := map[string]bool{}
	for _, l := range r.Body {
		if seen[l.T] {
			return true
		}
		seen[l.T] = true
	}
	return false
}

var _ = strings.Contains

func TestC06(t *testing.T) { RunProp(t, "C06", genC06, checkC06) }
