package props

import (
	"fmt"
	"os"
	"path/filepath"
	"regexp"
	"strconv"
	"strings"
	"testing"
	"time"

	"pgregory.net/rapid"

	"verifharness/cli"
)

// C18 — rule arguments, file names, chain offsets and the CRS root resolve consistently.

type C18Case struct {
	Kind string `json:"kind"` // arg | root
	// arg
	Arg   string   `json:"arg,omitempty"`
	Cmd   string   `json:"cmd,omitempty"`   // generate | update | compare | format
	Files []string `json:"files,omitempty"` // assembly file names present (below regex-assembly/)
	// root
	Roots []string `json:"roots,omitempty"` // directories (relative to the sandbox) that contain regex-assembly
	// LinkAsm: in every root, regex-assembly is a symbolic link to a directory kept next to it
	LinkAsm bool `json:"link_asm,omitempty"`
	Dirs  []string `json:"dirs,omitempty"`  // further plain directories
	Start string   `json:"start,omitempty"` // directory the -d argument / cwd refers to (relative to the sandbox)
	Via   string   `json:"via,omitempty"`   // d-abs | d-rel | cwd
}

var argRe = regexp.MustCompile(`^(\d{6})(?:-chain(\d+))?(?:\.ra)?$`)

func genC18(t *rapid.T) C18Case {
	switch rapid.IntRange(0, 8).Draw(t, "kind") {
	case 0, 1, 2:
		return genC18Root(t)
	case 3:
		// --all derives id and offset from the file names with the same grammar
		c := C18Case{Kind: "all", Cmd: rapid.SampledFrom([]string{"update", "update", "compare"}).Draw(t, "allcmd")}
		pool := []string{"932100.ra", "932100-chain1.ra", "932100-chain2.ra", "932100-chain7.ra", "932100-chain255.ra", "932100-chain256.ra", "932100-chain257.ra", "932100-chain300.ra", "932100-chain65537.ra", "932100-chain18446744073709551617.ra", "932101.ra", "9321000.ra", "93210.ra", "932100-chain.ra", "932100-chainx.ra"}
		n := rapid.IntRange(1, 6).Draw(t, "nall")
		c.Files = rapid.Permutation(pool).Draw(t, "allfiles")[:n]
		return c
	}
	c := C18Case{Kind: "arg"}
	id := "932100"
	ks := []string{"0", "1", "2", "3", "7", "01", "255", "256", "257", "300", "65536", "65537", "18446744073709551616", "18446744073709551617", "1000000000000000000000000000000", "-1", ""}
	base := rapid.SampledFrom([]string{id, id, id, id, id, id, id, id, id, id, id, id, id, id, id, id, "932101", "000000", "93210", "9321000", "0932100", "932100 ", " 932100", "93210a", "abcdef", "９３２１００", "932101", "000000"}).Draw(t, "base")
	arg := base
	if rapid.IntRange(0, 3).Draw(t, "chain") != 0 {
		sep := rapid.SampledFrom([]string{"-chain", "-chain", "-chain", "-chain", "-chain", "-chain", "-chain", "-chain", "-chain", "-chain", "-chain", "-chain", "-Chain", "chain", "-chain-", "_chain", "-chain "}).Draw(t, "sep")
		arg += sep + rapid.SampledFrom(ks).Draw(t, "k")
	}
	arg += rapid.SampledFrom([]string{"", "", "", "", "", "", "", "", ".ra", ".ra", ".ra", ".ra", ".ra", ".ra", ".rb", ".ra.ra", ".RA", ".ra ", "x", ".", "/", ".yaml"}).Draw(t, "ext")
	c.Arg = arg
	c.Cmd = rapid.SampledFrom([]string{"generate", "update", "update", "compare", "format"}).Draw(t, "cmd")
	// files: always a spread of offsets incl. values congruent modulo 256 and the leading-zero spelling
	c.Files = []string{"932100.ra", "932100-chain0.ra", "932100-chain1.ra", "932100-chain01.ra", "932100-chain2.ra", "932100-chain3.ra", "932100-chain7.ra", "932100-chain255.ra", "932100-chain256.ra", "932100-chain257.ra", "932100-chain300.ra", "932100-chain65536.ra", "932100-chain65537.ra", "932101.ra", "000000.ra"}
	if rapid.IntRange(0, 3).Draw(t, "dropfile") == 0 {
		i := rapid.IntRange(0, len(c.Files)-1).Draw(t, "drop")
		c.Files = append(c.Files[:i:i], c.Files[i+1:]...)
	}
	return c
}

func genC18Root(t *rapid.T) C18Case {
	c := C18Case{Kind: "root"}
	names := []string{"a", "b", "c"}
	var all []string
	var walk func(prefix string, depth int)
	walk = func(prefix string, depth int) {
		if depth > 3 {
			return
		}
		for _, n := range names[:rapid.IntRange(1, 2).Draw(t, "fan")] {
			p := n
			if prefix != "" {
				p = prefix + "/" + n
			}
			all = append(all, p)
			if rapid.IntRange(0, 2).Draw(t, "deeper") != 0 {
				walk(p, depth+1)
			}
		}
	}
	walk("", 0)
	if len(all) == 0 {
		all = []string{"a"}
	}
	c.Dirs = all
	nr := rapid.IntRange(0, 3).Draw(t, "nroots")
	seen := map[string]bool{}
	for i := 0; i < nr; i++ {
		r := rapid.SampledFrom(all).Draw(t, "root")
		if !seen[r] {
			seen[r] = true
			c.Roots = append(c.Roots, r)
		}
	}
	// start: a generated directory, one of the standard sub-directories of a root, or a path that does not exist
	starts := append([]string{}, all...)
	for _, r := range c.Roots {
		starts = append(starts, r+"/rules", r+"/regex-assembly", r+"/regex-assembly/include", r+"/tests/regression/tests", r+"/util/x/y")
	}
	starts = append(starts, all[0]+"/does/not/exist")
	c.Start = rapid.SampledFrom(starts).Draw(t, "start")
	c.Via = rapid.SampledFrom([]string{"d-abs", "d-abs", "d-rel", "d-rel-dots", "cwd", "d-abs-slash", "d-abs-unclean", "d-rel-slash"}).Draw(t, "via")
	c.LinkAsm = rapid.IntRange(0, 3).Draw(t, "linkasm") == 0
	return c
}

type argModel struct {
	ok     bool
	file   string
	id     string
	offset int
}

func modelArg(arg string) argModel {
	m := argRe.FindStringSubmatch(arg)
	if m == nil {
		return argModel{}
	}
	off := 0
	if m[2] != "" {
		n, err := strconv.ParseUint(m[2], 10, 64)
		if err != nil || n > 255 {
			return argModel{}
		}
		off = int(n)
	}
	f := arg
	if !strings.HasSuffix(f, ".ra") {
		f += ".ra"
	}
	return argModel{ok: true, file: f, id: m[1], offset: off}
}

func checkC18(c C18Case) Outcome {
	if c.Kind == "root" {
		return checkC18Root(c)
	}
	if c.Kind == "all" {
		return checkC18All(c)
	}
	out := Outcome{Labels: []string{"kind:arg", "cmd:" + c.Cmd}, Detail: map[string]any{"arg": c.Arg, "cmd": c.Cmd}}
	sb := cli.NewSandbox("c18")
	defer sb.Close()
	root := sb.Path("crs")
	tree := cli.Tree{}
	exists := map[string]bool{}
	for _, f := range c.Files {
		// distinct content per file: the word names the file
		// two entries; some files lack the final newline (generate ARG and generate - must still agree)
		tree["regex-assembly/"+f] = "##! comment\nzz\ncontent_of_" + strings.NewReplacer("-", "_", ".", "_").Replace(f)
		if len(f)%2 == 0 {
			tree["regex-assembly/"+f] += "\n"
		}
		exists[f] = true
	}
	// rules: rule 932100 with a chain of 260 links (so that every accepted offset exists), rules 932101 and 000000 plain
	var rb strings.Builder
	for k := 0; k <= 259; k++ {
		rb.WriteString(fmt.Sprintf("SecRule ARGS \"@rx old-%d\" \\\n", k))
		if k == 0 {
			rb.WriteString("    \"id:932100,\\\n    phase:2,\\\n")
		} else {
			rb.WriteString("    \"")
		}
		if k < 259 {
			rb.WriteString("t:none,\\\n    chain\"\n")
		} else {
			rb.WriteString("t:none\"\n")
		}
	}
	rb.WriteString("SecRule ARGS \"@rx old-932101\" \\\n    \"id:932101,\\\n    t:none\"\n")
	rulesText := rb.String()
	tree["rules/REQUEST-932-X.conf"] = rulesText
	// include files with rule-shaped names: a rule argument still addresses the rule file
	tree["regex-assembly/include/932100.ra"] = "  include_file_with_rule_name\n"
	tree["regex-assembly/include/932100-chain1.ra"] = "  include_file_with_rule_name\n"
	tree["rules/REQUEST-000-Y.conf"] = "SecRule ARGS \"@rx old-000000\" \\\n    \"id:000000,\\\n    t:none\"\n"
	if err := tree.Write(root); err != nil {
		panic(err)
	}
	m := modelArg(c.Arg)
	accept := m.ok && exists[m.file]
	switch {
	case accept:
		out.Labels = append(out.Labels, "model:accept")
	case m.ok:
		out.Labels = append(out.Labels, "model:grammar-ok-file-missing")
	default:
		out.Labels = append(out.Labels, "model:reject")
	}
	run := func(stdin string, args ...string) cli.Result {
		return cli.Run(cli.Opt{Dir: sb.Root, Stdin: stdin, Timeout: 30 * time.Second}, append([]string{"-d", root}, args...)...)
	}
	before := cli.ReadTree(root)
	var r cli.Result
	switch c.Cmd {
	case "generate":
		r = run("", "regex", "generate", c.Arg)
	case "update":
		r = run("", "regex", "update", c.Arg)
	case "compare":
		r = run("", "regex", "compare", c.Arg)
	case "format":
		r = run("", "regex", "format", c.Arg)
	}
	after := cli.ReadTree(root)
	out.Detail["exit"], out.Detail["stdout"], out.Detail["stderr"] = r.Exit, clip(r.Stdout, 200), tailLines(r.Stderr, 3)
	out.Detail["model"] = fmt.Sprintf("%+v accept=%v", m, accept)
	changed := treeDiff(before, after)
	if f := cli.RuntimeFault(r.Stderr); f != "" {
		out.Violation = "runtime fault: " + f
		return out
	}
	if c.Cmd == "format" {
		// format also takes include names: an argument that is not a rule argument names include/ARG.ra;
		// none exists here, so it must fail unless the argument is an accepted rule argument
		if accept {
			if r.Exit != 0 || len(changed) != 1 || changed[0] != "regex-assembly/"+m.file {
				out.Detail["changed"] = changed
				out.Violation = fmt.Sprintf("format %q should rewrite exactly regex-assembly/%s", c.Arg, m.file)
				return out
			}
		} else if r.Exit == 0 || len(changed) > 0 {
			out.Detail["changed"] = changed
			out.Violation = fmt.Sprintf("format %q should be rejected (exit %d, changed %v)", c.Arg, r.Exit, changed)
			return out
		}
	} else if !accept {
		if r.Exit == 0 {
			out.Violation = fmt.Sprintf("%s accepts argument %q (exit 0)", c.Cmd, c.Arg)
			return out
		}
		if len(changed) > 0 {
			out.Violation = fmt.Sprintf("%s rejected %q but modified %v", c.Cmd, c.Arg, changed)
			return out
		}
		if c.Cmd == "generate" && r.Stdout != "" {
			out.Violation = "rejected argument but a regex was printed"
			return out
		}
	} else {
		word := "zz|content_of_" + strings.NewReplacer("-", "_", ".", "_").Replace(m.file)
		switch c.Cmd {
		case "generate":
			if r.Exit != 0 || r.Stdout != word {
				out.Violation = fmt.Sprintf("generate %q should print the regex of %s (%q), got exit %d %q", c.Arg, m.file, word, r.Exit, r.Stdout)
				return out
			}
			s := run(before["regex-assembly/"+m.file], "regex", "generate", "-")
			if s.Stdout != r.Stdout || s.Exit != r.Exit {
				out.Violation = "generate ARG differs from generate - on the same bytes"
				return out
			}
		case "update":
			wantRules := rulesText
			target := fmt.Sprintf("\"@rx old-%d\" \\\n", m.offset)
			if m.id == "932101" {
				target = "\"@rx old-932101\" \\\n"
			}
			file := "rules/REQUEST-932-X.conf"
			if m.id == "000000" {
				file, wantRules, target = "rules/REQUEST-000-Y.conf", before["rules/REQUEST-000-Y.conf"], "\"@rx old-000000\" \\\n"
			}
			wantRules = strings.Replace(wantRules, target, "\"@rx "+word+"\" \\\n", 1)
			if r.Exit != 0 || after[file] != wantRules || len(changed) != 1 {
				out.Detail["changed"] = changed
				for _, l := range strings.Split(after[file], "\n") {
					if strings.Contains(l, "content_of_") {
						out.Detail["rewritten_line"] = l
					}
				}
				out.Violation = fmt.Sprintf("update %q should put %s into the operand of rule %s offset %d and nothing else", c.Arg, word, m.id, m.offset)
				return out
			}
		case "compare":
			if !strings.Contains(r.Stdout, "Regex of "+m.id+" has changed!") || !strings.Contains(r.Stdout, strings.TrimPrefix(word, "zz|")) {
				out.Violation = fmt.Sprintf("compare %q should compare rule %s with the regex of %s", c.Arg, m.id, m.file)
				return out
			}
			want := fmt.Sprintf("old-%d", m.offset)
			if m.id != "932100" {
				want = "old-" + m.id
			}
			if !regexp.MustCompile(`current:\s+` + regexp.QuoteMeta(want) + `\s`).MatchString(r.Stdout) {
				out.Violation = fmt.Sprintf("compare %q should read the operand at chain offset %d (%s)", c.Arg, m.offset, want)
				return out
			}
		}
	}
	near := m.ok || argRe.MatchString(strings.TrimSpace(c.Arg)) || strings.HasPrefix(c.Arg, "932100")
	out.NonTrivial = near
	out.Key = c.Cmd + "\x00" + c.Arg + "\x00" + strings.Join(c.Files, ",")
	out.Sample = map[string]any{"arg": c.Arg, "cmd": c.Cmd, "model_accepts": accept, "exit": r.Exit}
	return out
}

var reAllFile = regexp.MustCompile(`^(\d{6})(?:-chain(\d+))?\.ra$`)

// checkC18All: `update --all` / `compare --all` must treat a file whose offset is above 255 exactly like
// the single-argument form does (reject it), never wrap it onto another rule of the chain.
func checkC18All(c C18Case) Outcome {
	out := Outcome{Labels: []string{"kind:all", "cmd:" + c.Cmd}, Detail: map[string]any{"files": c.Files, "cmd": c.Cmd}}
	sb := cli.NewSandbox("c18a")
	defer sb.Close()
	root := sb.Path("crs")
	tree := cli.Tree{}
	over := false
	for _, f := range c.Files {
		tree["regex-assembly/"+f] = "content_of_" + strings.NewReplacer("-", "_", ".", "_").Replace(f) + "\n"
		if m := reAllFile.FindStringSubmatch(f); m != nil && m[2] != "" {
			if n, err := strconv.ParseUint(m[2], 10, 64); err != nil || n > 255 {
				over = true
			}
		}
	}
	var rb strings.Builder
	for k := 0; k <= 259; k++ {
		rb.WriteString(fmt.Sprintf("SecRule ARGS \"@rx old-%d\" \\\n", k))
		if k == 0 {
			rb.WriteString("    \"id:932100,\\\n    phase:2,\\\n")
		} else {
			rb.WriteString("    \"")
		}
		if k < 259 {
			rb.WriteString("t:none,\\\n    chain\"\n")
		} else {
			rb.WriteString("t:none\"\n")
		}
	}
	rb.WriteString("SecRule ARGS \"@rx old-932101\" \\\n    \"id:932101,\\\n    t:none\"\n")
	tree["rules/REQUEST-932-X.conf"] = rb.String()
	// files named like rule files in sub-directories of the assembly directory are not the rule's assembly files
	tree["regex-assembly/archive/932100.ra"] = "archived_copy\n"
	tree["regex-assembly/archive/deeper/932100-chain1.ra"] = "archived_chain_copy\n"
	tree["regex-assembly/include/932101.ra"] = "word_list_named_like_a_rule\n"
	if err := tree.Write(root); err != nil {
		panic(err)
	}
	before := cli.ReadTree(root)
	r := cli.Run(cli.Opt{Dir: sb.Root, Timeout: 60 * time.Second}, "-d", root, "regex", c.Cmd, "--all")
	after := cli.ReadTree(root)
	out.Detail["exit"], out.Detail["stderr"] = r.Exit, tailLines(r.Stderr, 3)
	if over {
		out.Labels = append(out.Labels, "has-offset-above-255")
		if r.Exit == 0 {
			out.Violation = fmt.Sprintf("%s --all exits 0 although an assembly file has a chain offset above 255", c.Cmd)
			return out
		}
	}
	// every rewritten operand must come from the file whose (valid) offset addresses that line
	bl, al := strings.Split(before["rules/REQUEST-932-X.conf"], "\n"), strings.Split(after["rules/REQUEST-932-X.conf"], "\n")
	if len(bl) != len(al) {
		out.Violation = "the number of lines of the rules file changed"
		return out
	}
	for i := range bl {
		if bl[i] == al[i] {
			continue
		}
		var k int
		isPlain := strings.Contains(bl[i], "old-932101")
		if !isPlain {
			if _, err := fmt.Sscanf(strings.TrimSpace(bl[i]), "SecRule ARGS \"@rx old-%d\"", &k); err != nil {
				out.Violation = "an unexpected line was rewritten: " + bl[i]
				return out
			}
		}
		want := fmt.Sprintf("content_of_932100_chain%d_ra", k)
		if k == 0 {
			want = "content_of_932100_ra"
		}
		if isPlain {
			want = "content_of_932101_ra"
		}
		if !strings.Contains(al[i], "\"@rx "+want+"\"") {
			out.Detail["line_before"], out.Detail["line_after"] = bl[i], al[i]
			out.Violation = fmt.Sprintf("the operand at chain offset %d was rewritten with the regex of another file (offset wrapped or guessed)", k)
			return out
		}
	}
	for p := range after {
		if p != "rules/REQUEST-932-X.conf" && before[p] != after[p] {
			out.Violation = "another file was modified: " + p
			return out
		}
	}
	if c.Cmd == "compare" && !over {
		// every report pairs the operand at the offset named by a file with the regex of that very file
		want := map[string]bool{}
		for _, f := range c.Files {
			m := reAllFile.FindStringSubmatch(f)
			if m == nil || (m[1] != "932100" && m[1] != "932101") {
				continue
			}
			cur := "old-0"
			if m[2] != "" {
				n, _ := strconv.ParseUint(m[2], 10, 64)
				cur = fmt.Sprintf("old-%d", n)
			}
			if m[1] == "932101" {
				cur = "old-932101"
			}
			want[cur+" <- content_of_"+strings.NewReplacer("-", "_", ".", "_").Replace(f)] = true
		}
		got := map[string]bool{}
		for _, m := range regexp.MustCompile(`current:\s+(\S+)\s+~[^\n]*\ngenerated:\s+(\S+)`).FindAllStringSubmatch(r.Stdout, -1) {
			got[m[1]+" <- "+m[2]] = true
		}
		out.Detail["reports"], out.Detail["expected_reports"] = fmt.Sprint(got), fmt.Sprint(want)
		for k := range want {
			if !got[k] {
				out.Violation = "compare --all does not report `" + k + "` (the file's own id and chain offset)"
				return out
			}
		}
		for k := range got {
			if !want[k] {
				out.Violation = "compare --all reports `" + k + "`: the operand of another chain offset than the file names"
				return out
			}
		}
	}
	out.NonTrivial = over || len(c.Files) >= 2
	out.Key = fmt.Sprint(c.Cmd, c.Files)
	out.Sample = map[string]any{"cmd": c.Cmd + " --all", "files": c.Files, "exit": r.Exit}
	return out
}

func checkC18Root(c C18Case) Outcome {
	out := Outcome{Labels: []string{"kind:root", "via:" + c.Via, fmt.Sprintf("roots:%d", len(c.Roots))}, Detail: map[string]any{"roots": c.Roots, "start": c.Start, "via": c.Via}}
	sb := cli.NewSandbox("c18r")
	defer sb.Close()
	tree := cli.Tree{}
	for _, d := range c.Dirs {
		tree["w/"+d+"/"] = ""
	}
	word := func(r string) string { return "root_" + strings.ReplaceAll(r, "/", "_") }
	if c.LinkAsm {
		out.Labels = append(out.Labels, "regex-assembly-is-a-symbolic-link")
	}
	for _, r := range c.Roots {
		if c.LinkAsm {
			tree["w/"+r+"/assembly-store/932100.ra"] = word(r) + "\n"
			tree["w/"+r+"/assembly-store/include/"] = ""
			tree["w/"+r+"/regex-assembly"] = cli.SymlinkPrefix + "assembly-store"
			tree["w/"+r+"/rules/"] = ""
			tree["w/"+r+"/tests/regression/tests/"] = ""
			continue
		}
		tree["w/"+r+"/regex-assembly/932100.ra"] = word(r) + "\n"
		tree["w/"+r+"/regex-assembly/include/"] = ""
		tree["w/"+r+"/rules/"] = ""
		tree["w/"+r+"/tests/regression/tests/"] = ""
	}
	if err := tree.Write(sb.Root); err != nil {
		panic(err)
	}
	start := "w/" + c.Start
	// model: nearest ancestor-or-self of start that is a root
	isRoot := map[string]bool{}
	for _, r := range c.Roots {
		isRoot["w/"+r] = true
	}
	want := ""
	switch c.Via {
	case "cwd":
		if isRoot[start] {
			want = start
		}
	default:
		for p := start; p != "." && p != "/" && p != ""; p = filepath.ToSlash(filepath.Dir(p)) {
			if isRoot[p] {
				want = p
				break
			}
		}
	}
	// with an absolute -d the working directory is irrelevant: it is a CRS root of its own with other content
	cwdRoot := sb.Path("cwdroot")
	if err := (cli.Tree{"regex-assembly/932100.ra": "from_the_working_directory\n"}).Write(cwdRoot); err != nil {
		panic(err)
	}
	var r cli.Result
	cwdExists := true
	switch c.Via {
	case "d-abs":
		r = cli.Run(cli.Opt{Dir: cwdRoot, Timeout: 30 * time.Second}, "-d", sb.Path(start), "regex", "generate", "932100")
	case "d-abs-slash":
		// the same directory spelled with a trailing slash, or with a doubled one inside
		r = cli.Run(cli.Opt{Dir: cwdRoot, Timeout: 30 * time.Second}, "-d", sb.Path(start)+"/", "regex", "generate", "932100")
	case "d-abs-unclean":
		r = cli.Run(cli.Opt{Dir: cwdRoot, Timeout: 30 * time.Second}, "-d", sb.Root+"//./"+start+"/.", "regex", "generate", "932100")
	case "d-rel-slash":
		r = cli.Run(cli.Opt{Dir: sb.Root, Timeout: 30 * time.Second}, "-d", start+"/", "regex", "generate", "932100")
	case "d-rel":
		r = cli.Run(cli.Opt{Dir: sb.Root, Timeout: 30 * time.Second}, "-d", start, "regex", "generate", "932100")
	case "d-rel-dots":
		r = cli.Run(cli.Opt{Dir: sb.Path("w"), Timeout: 30 * time.Second}, "-d", "./"+c.Start+"/../"+filepath.Base(c.Start), "regex", "generate", "932100")
	case "cwd":
		if !dirExists(sb.Path(start)) {
			cwdExists = false
		} else {
			r = cli.Run(cli.Opt{Dir: sb.Path(start), Home: sb.Root, Timeout: 30 * time.Second}, "regex", "generate", "932100")
		}
	}
	if !cwdExists {
		out.Labels = append(out.Labels, "cwd-does-not-exist")
		return out
	}
	out.Detail["exit"], out.Detail["stdout"], out.Detail["stderr"], out.Detail["model_root"] = r.Exit, r.Stdout, tailLines(r.Stderr, 3), want
	if want == "" {
		out.Labels = append(out.Labels, "model:no-root")
		if r.Exit == 0 || r.Stdout != "" {
			out.Violation = fmt.Sprintf("no CRS root is reachable from %s (%s) but the command exits %d and prints %q", c.Start, c.Via, r.Exit, r.Stdout)
			return out
		}
	} else {
		out.Labels = append(out.Labels, "model:root-found")
		w := word(strings.TrimPrefix(want, "w/"))
		if r.Exit != 0 || r.Stdout != w {
			out.Violation = fmt.Sprintf("the root for %s (%s) should be %s (regex %q) but the command exits %d and prints %q", c.Start, c.Via, want, w, r.Exit, r.Stdout)
			return out
		}
	}
	nested := false
	for _, a := range c.Roots {
		for _, b := range c.Roots {
			if a != b && strings.HasPrefix(b, a+"/") {
				nested = true
			}
		}
	}
	if nested {
		out.Labels = append(out.Labels, "nested-roots")
	}
	out.NonTrivial = len(c.Roots) >= 1 && (nested || strings.Count(c.Start, "/") >= 1)
	out.Key = fmt.Sprint(c.Roots, c.Dirs, c.Start, c.Via)
	out.Sample = map[string]any{"roots": c.Roots, "start": c.Start, "via": c.Via, "resolved": want, "stdout": r.Stdout, "exit": r.Exit}
	return out
}

func dirExists(p string) bool {
	st, err := os.Stat(p)
	return err == nil && st.IsDir()
}

func TestC18(t *testing.T) { RunProp(t, "C18", genC18, checkC18) }

var _ = time.Second
