package props

import (
	"fmt"
	"strings"
	"testing"

	"pgregory.net/rapid"

	"verifharness/ragen"
	"verifharness/reqv"
)

// C01 — generated regex ≡ plain reading of the file (exact language equality, VT excluded).

type C01Case struct {
	Prog *ragen.Program `json:"prog"`
	Cfg  ragen.Config   `json:"cfg"`
	Lab  []string       `json:"labels,omitempty"`
	// ViaFile: the program is given as regex-assembly/942999.ra (`generate 942999`) instead of on stdin
	ViaFile bool `json:"via_file,omitempty"`
}

func c01Opt() ragen.GenOpt {
	o := ragen.GenOpt{
		Rx:            ragen.RxOpt{Stress: 8, MaxDepth: 2, Words: 35},
		MaxDepth:      3,
		MaxItems:      7,
		Flags:         true,
		PrefixSuffix:  true,
		Defs:          true,
		DefsInPS:      true,
		Includes:      true,
		Excepts:       true,
		Pairs:         true,
		IncludePS:     true,
		IncludeDefs:   true,
		Cmdline:       true,
		StoreLoad:     true,
		TrailWS:       true,
		NestInCmdline: true,
	}
	if thorough() {
		o.MaxDepth, o.MaxItems = 4, 10
	}
	o.ConfigGen = func(t *rapid.T) (*string, ragen.Config) {
		s, c := ragen.CRSLike()
		if rapid.IntRange(0, 2).Draw(t, "cfgextra") == 0 {
			// keys the tool does not know do not invalidate the file
			x := rapid.SampledFrom([]string{"version: 1\n", "# managed by hand\nx-owner: \"crs\"\n"}).Draw(t, "cfgextrakey") + *s
			s = &x
		}
		return s, c
	}
	if openFinding("D5") {
		o.Rx.NoWsRange = true
	}
	if openFinding("D6") {
		o.NoLoneAlt = true
	}
	if openFinding("D17") {
		o.Rx.NoAnyUnion = true
	}
	if openFinding("D20") {
		o.Rx.NoCasePairs = true
	}
	if openFinding("D2") {
		o.DefsInPS = false
	}
	return o
}

func genC01(t *rapid.T) C01Case {
	g := ragen.GenProgram(t, c01Opt())
	c := C01Case{Prog: g.Prog, Cfg: g.Cfg, Lab: labelsOf(g.Labels)}
	c.ViaFile = rapid.IntRange(0, 3).Draw(t, "viafile") == 0
	if n := len(g.Prog.Main); c.ViaFile && n > 0 && g.Prog.Main[n-1].K == ragen.KEntry && rapid.Bool().Draw(t, "lasttrail") {
		// the file's last line is an entry that ends in white space (significant, like anywhere else)
		if e := g.Prog.Main[n-1].T + rapid.SampledFrom([]string{" ", "\t"}).Draw(t, "lastws"); ragen.ValidEntryWS(e) || strings.Contains(e, "{{") {
			g.Prog.Main[n-1].T = e
			c.Lab = append(c.Lab, "last-line-ends-in-blank")
		}
	}
	if c.ViaFile {
		c.Lab = append(c.Lab, "via-file")
	}
	return c
}

func maxStates() int {
	if thorough() {
		return 400000
	}
	return 50000
}

func checkC01(c C01Case) Outcome {
	out := Outcome{Labels: c.Lab, Detail: map[string]any{}}
	res, err := c.Prog.Resolve(c.Prog.Main, ragen.ResolveOpt{ExpandInPrefixSuffix: true, PairMode: "seq"}, nil, 0)
	if err != nil {
		out.HarnessError = "generated program does not resolve: " + err.Error()
		return out
	}
	for _, l := range res.Body {
		if l.K == ragen.KEntry && !ragen.ValidEntryWS(l.T) && l.T != "(?:)" {
			// a suffix replacement turned an entry into text that is not an expression: outside "well-formed"
			out.Labels = append(out.Labels, "outside-domain:rewritten-entry-not-parsable")
			return out
		}
	}
	ref, err := ragen.Eval(res, c.Cfg)
	if err != nil {
		out.HarnessError = "generated program has no plain reading: " + err.Error()
		return out
	}
	if openFinding("D22") && hasLabel(c.Lab, "flag-i") {
		for _, l := range res.Body {
			if l.K == ragen.KEntry && ragen.CaseOpenNegated(l.T) {
				out.ExcludedBy = "D22"
				return out
			}
		}
	}
	r := generate(c.Prog)
	if c.ViaFile {
		r = generateFile(c.Prog)
	}
	out.Detail["program"] = c.Prog.MainText()
	out.Detail["reference"] = ref
	out.Detail["stdout"] = r.Stdout
	out.Detail["exit"] = r.Exit
	if r.Exit != 0 {
		out.Detail["stderr"] = tailLines(r.Stderr, 12)
		if openFinding("D23") && strings.Contains(r.Stderr, "invalid character class range") {
			out.ExcludedBy = "D23"
			return out
		}
		out.Violation = fmt.Sprintf("well-formed program does not compile (exit %d)", r.Exit)
		return out
	}
	cmp := reqv.Compare(ref, r.Stdout, reqv.Options{SkipVT: true, MaxState: maxStates()})
	switch cmp.Verdict {
	case reqv.Error:
		if strings.HasPrefix(cmp.Err, "B:") {
			out.Violation = "output is not an RE2 expression: " + cmp.Err
			return out
		}
		out.HarnessError = fmt.Sprintf("oracle error: %s (ref %q out %q)", cmp.Err, ref, r.Stdout)
		return out
	case reqv.Different:
		side := "accepted by the generated regex but not by the plain reading"
		if cmp.InA {
			side = "accepted by the plain reading but not by the generated regex"
		}
		out.Detail["witness"] = cmp.Witness
		predUndecided = false
		if openFinding("D17") && inD17Class(ref, r.Stdout) {
			out.ExcludedBy = "D17"
			return out
		}
		if openFinding("D21") && hasLabel(c.Lab, "flag-i") && inD21Class(ref, r.Stdout) {
			out.ExcludedBy = "D21"
			return out
		}
		if openFinding("D30") && hasLabel(c.Lab, "flag-s") && inD30Class(ref, r.Stdout) {
			out.ExcludedBy = "D30"
			return out
		}
		if openFinding("D20") && !hasLabel(c.Lab, "flag-i") && inD20Class(ref, r.Stdout) {
			out.ExcludedBy = "D20"
			return out
		}
		if predUndecided {
			out.Inconclusive = "known-finding class predicate hit the state cap"
			return out
		}
		out.Violation = fmt.Sprintf("language differs: %q is %s", cmp.Witness, side)
		return out
	case reqv.Inconclusive:
		out.Inconclusive = "state-cap"
	}
	out.Labels = append(out.Labels, "verdict:"+cmp.Verdict.String())
	nEntries := 0
	for _, l := range res.Body {
		if l.K == ragen.KEntry {
			nEntries++
		}
	}
	feat := false
	for _, l := range c.Lab {
		switch l {
		case "concat-marker", "nested-assemble", "load", "prefix", "suffix", "flag-i", "flag-s", "cmdline-block", "include", "def-ref":
			feat = true
		}
	}
	out.NonTrivial = nEntries >= 2 && feat && cmp.Verdict == reqv.Equal
	out.Key = c.Prog.Canon()
	out.Sample = map[string]any{"program": c.Prog.MainText(), "files": len(c.Prog.Files), "generated": clip(r.Stdout, 300), "verdict": cmp.Verdict.String(), "product_states": cmp.States}
	return out
}

func TestC01(t *testing.T) { RunProp(t, "C01", genC01, checkC01) }
