package props

import (
	"fmt"
	"strings"
	"testing"

	"pgregory.net/rapid"

	"verifharness/cli"
	"verifharness/crsgen"
)

func genC12(t *rapid.T) UpdCase { return genUpdCase(t, true) }

// editOperand changes one byte of the operand, staying away from quotes and backslashes so that
// the line stays well formed.
func editOperand(op, kind string, pos int) (string, bool) {
	safe := func(i int) bool {
		if i < 0 || i >= len(op) {
			return false
		}
		for _, j := range []int{i - 1, i, i + 1} {
			if j >= 0 && j < len(op) && (op[j] == '\\' || op[j] == '"' || op[j] >= 0x80) {
				return false
			}
		}
		return true
	}
	if len(op) == 0 {
		return "Q", true
	}
	start := pos % len(op)
	for d := 0; d < len(op); d++ {
		i := (start + d) % len(op)
		if !safe(i) {
			continue
		}
		switch kind {
		case "sub":
			r := byte('Q')
			if op[i] == 'Q' {
				r = '7'
			}
			return op[:i] + string(r) + op[i+1:], true
		case "del":
			if len(op) > 1 {
				return op[:i] + op[i+1:], true
			}
			return op + "Q", true
		default:
			return op[:i] + "Q" + op[i:], true
		}
	}
	// no safe position: append at the end unless the operand ends in a backslash
	if op[len(op)-1] != '\\' {
		return op + "Q", true
	}
	return "", false
}

func checkC12(c UpdCase) Outcome {
	out := Outcome{Labels: c.Lab, Detail: map[string]any{}}
	e := setupUpd(c)
	defer e.sb.Close()
	arg := c.Arg()
	span := e.spans[crsgen.Key(c.ID, c.Offset)]
	out.Detail["arg"] = arg
	out.Detail["program"] = c.Prog.MainText()
	out.Detail["rules_before"] = e.original
	gen := e.run("regex", "generate", arg)
	if gen.Exit != 0 {
		out.Labels = append(out.Labels, "target-does-not-compile")
		return out
	}
	out.Detail["generated"] = gen.Stdout
	up := e.run("regex", "update", arg)
	if up.Exit != 0 {
		out.Detail["update_stderr"] = tailLines(up.Stderr, 6)
		out.Violation = fmt.Sprintf("update fails (exit %d)", up.Exit)
		return out
	}
	after1 := e.sb.Read("crs/" + e.rulesPath)
	out.Detail["rules_after_update"] = after1
	// stored operand equals generate's output byte for byte (located independently by the span)
	wantFile := e.original[:span.Start] + gen.Stdout + e.original[span.End:]
	stored := ""
	if len(after1) >= span.Start+len(gen.Stdout) {
		stored = after1[span.Start : span.Start+len(gen.Stdout)]
	}
	if stored != gen.Stdout {
		if hasLabel(c.Lab, "id-in-comment") && after1 != wantFile {
			out.Labels = append(out.Labels, "mistargeted:id-in-comment")
		}
		out.Violation = "the operand stored by update differs from generate's output"
		return out
	}
	cmp := e.run("regex", "compare", arg)
	out.Detail["compare_stdout"], out.Detail["compare_exit"] = cmp.Stdout, cmp.Exit
	if cmp.Exit != 0 || !strings.Contains(cmp.Stdout, "has not changed") {
		out.Violation = fmt.Sprintf("compare right after update does not report the rule as unchanged (exit %d)", cmp.Exit)
		return out
	}
	snap := cli.Snap(e.root)
	up2 := e.run("regex", "update", arg)
	if d := cli.ContentDiff(snap, cli.Snap(e.root)); up2.Exit != 0 || len(d) > 0 {
		out.Detail["rules_after_second_update"] = e.sb.Read("crs/" + e.rulesPath)
		out.Violation = fmt.Sprintf("a second update is not a no-op (exit %d, changed %v)", up2.Exit, d)
		return out
	}
	all := e.run("regex", "compare", "--all")
	if all.Exit != 0 || !strings.Contains(all.Stdout, "Regex of "+c.ID+" has not changed") {
		out.Detail["compare_all_stdout"] = all.Stdout
		out.Violation = fmt.Sprintf("compare --all after update does not report the rule as unchanged (exit %d)", all.Exit)
		return out
	}
	// converse: one byte of the stored operand edited
	edited, ok := editOperand(gen.Stdout, c.EditKind, c.EditPos)
	if !ok {
		out.Labels = append(out.Labels, "no-safe-edit-position")
	} else {
		e.sb.WriteFile("crs/"+e.rulesPath, after1[:span.Start]+edited+after1[span.Start+len(gen.Stdout):])
		out.Detail["edited_operand"] = edited
		c1 := e.run("regex", "compare", arg)
		if c1.Exit == 0 || !strings.Contains(c1.Stdout, "has changed!") {
			out.Detail["compare_after_edit_stdout"], out.Detail["compare_after_edit_exit"] = c1.Stdout, c1.Exit
			out.Violation = fmt.Sprintf("compare does not report a one-byte difference (exit %d)", c1.Exit)
			return out
		}
		c2 := e.run("-o", "github", "regex", "compare", arg)
		if c2.Exit == 0 {
			out.Violation = "compare in GitHub mode exits 0 although the stored operand differs"
			return out
		}
		c3 := e.run("regex", "compare", "--all")
		if !strings.Contains(c3.Stdout, "Regex of "+c.ID+" has changed!") {
			out.Detail["compare_all_after_edit"] = c3.Stdout
			out.Violation = "compare --all does not list the edited rule as changed"
			return out
		}
		c4 := e.run("-o", "github", "regex", "compare", "--all")
		if c4.Exit == 0 {
			out.Violation = "compare --all in GitHub mode exits 0 although a stored operand differs"
			return out
		}
		out.Labels = append(out.Labels, "edit:"+c.EditKind)
		// update --all brings the edited rule back in sync (files not named like a rule do not stop it)
		if ua := e.run("regex", "update", "--all"); ua.Exit == 0 {
			c5 := e.run("regex", "compare", arg)
			if c5.Exit != 0 || !strings.Contains(c5.Stdout, "has not changed") {
				out.Detail["compare_after_update_all"] = c5.Stdout
				out.Violation = fmt.Sprintf("after a successful update --all compare does not report the rule as unchanged (exit %d)", c5.Exit)
				return out
			}
			out.Labels = append(out.Labels, "update-all-resyncs")
		}
	}
	out.NonTrivial = len(gen.Stdout) >= 3 && strings.ContainsAny(gen.Stdout, `"\ `)
	out.Key = e.original + "\x00" + arg + "\x00" + c.Prog.Canon() + "\x00" + c.EditKind
	out.Sample = map[string]any{"arg": arg, "generated": clip(gen.Stdout, 160), "edited": clip(edited, 160), "history": "update, compare, update, compare --all, edit one byte, compare, -o github compare, compare --all, -o github compare --all"}
	return out
}

func TestC12(t *testing.T) { RunProp(t, "C12", genC12, checkC12) }
