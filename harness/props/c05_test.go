package props

import (
	"fmt"
	"strings"
	"testing"
	"time"
	"verifharness/cli"

	"pgregory.net/rapid"

	"verifharness/ragen"
	"verifharness/reqv"
)

// C05 — including a file is the same as typing its lines in place.

type C05Case struct {
	Prog *ragen.Program `json:"prog"`
	// Variant: "" = plain comparison; "flags-in-include" = one included file carries a flags line
	Variant string   `json:"variant,omitempty"`
	Lab     []string `json:"labels,omitempty"`
	// Global: global arguments of the run with the include directives (log level): what is included must not depend on them
	Global []string `json:"global,omitempty"`
	// Linked: this include file (path below regex-assembly/) is a symbolic link to a file kept elsewhere
	Linked string `json:"linked,omitempty"`
}

// runC05 generates from the program; one include file may be a symbolic link, global arguments may be given.
func runC05(p *ragen.Program, global []string, linked string) cli.Result {
	sb := cli.NewSandbox("c05")
	defer sb.Close()
	tree := cli.Tree(p.Tree())
	if content, ok := tree["regex-assembly/"+linked]; ok && linked != "" {
		base := linked[strings.LastIndexByte(linked, '/')+1:]
		tree["regex-assembly/shared-lists/"+base] = content
		tree["regex-assembly/"+linked] = cli.SymlinkPrefix + "../shared-lists/" + base
	}
	if err := tree.Write(sb.Path("crs")); err != nil {
		panic(err)
	}
	args := append(append([]string{}, global...), "-d", sb.Path("crs"), "regex", "generate", "-")
	return cli.Run(cli.Opt{Dir: sb.Root, Stdin: p.MainText(), Timeout: 30 * time.Second}, args...)
}

func genC05(t *rapid.T) C05Case {
	o := ragen.GenOpt{
		Rx:       ragen.RxOpt{Stress: 5, MaxDepth: 1},
		MaxDepth: 2, MaxItems: 6, Flags: true, PrefixSuffix: true, Defs: true, DefsInPS: true,
		Includes: true, Excepts: true, Pairs: true, IncludePS: true, IncludeDefs: true, Cmdline: true, IncludeInCmdline: true, StoreLoad: true, Noise: true, TrailWS: true,
	}
	if thorough() {
		o.MaxDepth, o.MaxItems = 3, 8
	}
	g := ragen.GenProgram(t, o)
	c := C05Case{Prog: g.Prog}
	// make sure at least one include line exists when files exist
	names := fileNames(g.Prog)
	if len(names) > 0 && !g.Labels["include"] && !g.Labels["include-in-cmdline"] {
		f := strings.TrimSuffix(strings.TrimPrefix(strings.TrimPrefix(names[0], "include/"), "exclude/"), ".ra")
		pos := rapid.IntRange(0, len(g.Prog.Main)).Draw(t, "incpos")
		// never inside a cmdline block by accident: insert at top level start or end only
		if pos != 0 {
			pos = len(g.Prog.Main)
		}
		l := ragen.Line{K: ragen.KInclude, File: f}
		g.Prog.Main = append(g.Prog.Main[:pos], append([]ragen.Line{l}, g.Prog.Main[pos:]...)...)
		g.Labels["include"] = true
	}
	// the same file name in include/ and exclude/ with different content: include/ wins
	if len(names) > 0 && rapid.IntRange(0, 3).Draw(t, "shadow") == 0 {
		n := rapid.SampledFrom(names).Draw(t, "shadowed")
		other := "exclude/" + strings.TrimPrefix(n, "include/")
		if strings.HasPrefix(n, "include/") {
			g.Prog.Files[other] = []ragen.Line{{K: ragen.KEntry, T: "shadow1"}, {K: ragen.KEntry, T: "shadow2"}}
			g.Labels["same-name-in-include-and-exclude"] = true
		}
	}
	if len(names) > 0 && rapid.IntRange(0, 7).Draw(t, "flagsvariant") == 0 {
		c.Variant = "flags-in-include"
	}
	// a reference in the main file to a name defined only in an included file must stay literal
	if g.Labels["include-with-definitions"] && rapid.IntRange(0, 1).Draw(t, "leak") == 0 {
		for _, n := range names {
			for _, l := range g.Prog.Files[n] {
				if l.K == ragen.KDefine {
					g.Prog.Main = append(g.Prog.Main, ragen.Line{K: ragen.KEntry, T: "zz{{" + l.Name + "}}"})
					g.Labels["main-references-include-definition"] = true
					break
				}
			}
		}
	}
	// a chain of includes nested 12 deep (any depth is legal as long as there is no cycle)
	if rapid.IntRange(0, 7).Draw(t, "deepchain") == 0 {
		for i := 1; i <= 12; i++ {
			lines := []ragen.Line{{K: ragen.KEntry, T: fmt.Sprintf("deep%02d", i)}}
			if i < 12 {
				lines = append(lines, ragen.Line{K: ragen.KInclude, File: fmt.Sprintf("chain%02d", i+1)})
			}
			g.Prog.Files[fmt.Sprintf("include/chain%02d.ra", i)] = lines
		}
		g.Prog.Main = append(g.Prog.Main, ragen.Line{K: ragen.KInclude, File: "chain01"})
		g.Labels["include-chain-12-deep"] = true
	}
	// a word list of real size (the parsed text is well above 1 KiB)
	if rapid.IntRange(0, 5).Draw(t, "biglist") == 0 {
		var big []ragen.Line
		for i := 0; i < 160; i++ {
			big = append(big, ragen.Line{K: ragen.KEntry, T: fmt.Sprintf("word%03dx", i)})
		}
		g.Prog.Files["include/biglist.ra"] = big
		g.Prog.Main = append(g.Prog.Main, ragen.Line{K: ragen.KInclude, File: "biglist"})
		g.Labels["include-above-1KiB"] = true
	}
	// a generated list above 1 MiB (long entries, as produced by scripts that dump payload corpora)
	if rapid.IntRange(0, 199).Draw(t, "hugelist") == 137 {
		var huge []ragen.Line
		for i := 0; i < 108; i++ {
			huge = append(huge, ragen.Line{K: ragen.KEntry, T: fmt.Sprintf("h%03d", i) + strings.Repeat("payload", 1430)})
		}
		huge = append(huge, ragen.Line{K: ragen.KEntry, T: "lastofthehugelist"})
		g.Prog.Files["include/hugelist.ra"] = huge
		g.Prog.Main = append(g.Prog.Main, ragen.Line{K: ragen.KInclude, File: "hugelist"})
		g.Labels["include-above-1MiB"] = true
	}
	c.Global = rapid.SampledFrom([][]string{nil, nil, nil, {"-l", "trace"}, {"-l", "debug"}, {"--log-level", "trace"}}).Draw(t, "global")
	if len(c.Global) > 0 {
		g.Labels["log-level-given"] = true
	}
	if r := reachable(g.Prog); len(r) > 0 && rapid.IntRange(0, 3).Draw(t, "linked") == 0 {
		c.Linked = rapid.SampledFrom(r).Draw(t, "linkedfile")
		g.Labels["include-file-is-a-symbolic-link"] = true
	}
	c.Lab = labelsOf(g.Labels)
	return c
}

func fileNames(p *ragen.Program) []string {
	var names []string
	for n := range p.Files {
		names = append(names, n)
	}
	sortStrings(names)
	return names
}

// reachable lists the files the main program really includes (transitively).
func reachable(p *ragen.Program) []string {
	seen := map[string]bool{}
	var visit func(lines []ragen.Line)
	visit = func(lines []ragen.Line) {
		for _, l := range lines {
			if l.K != ragen.KInclude && l.K != ragen.KExcept {
				continue
			}
			for _, f := range append([]string{l.File}, l.Excl...) {
				if !strings.HasSuffix(f, ".ra") {
					f += ".ra"
				}
				for _, d := range []string{"include/", "exclude/"} {
					if sub, ok := p.Files[d+f]; ok {
						if !seen[d+f] {
							seen[d+f] = true
							visit(sub)
						}
						break // the include directory shadows the exclude directory
					}
				}
			}
		}
	}
	visit(p.Main)
	var out []string
	for n := range seen {
		out = append(out, n)
	}
	sortStrings(out)
	return out
}

func checkC05(c C05Case) Outcome {
	out := Outcome{Labels: c.Lab, Detail: map[string]any{}}
	prog := c.Prog
	reach := reachable(prog)
	if c.Variant == "flags-in-include" {
		if len(reach) == 0 {
			out.Labels = append(out.Labels, "variant-not-applicable")
			return out
		}
		// copy with a flags line in the first reachable file
		cp := *prog
		cp.Files = map[string][]ragen.Line{}
		for k, v := range prog.Files {
			cp.Files[k] = v
		}
		cp.Files[reach[0]] = append([]ragen.Line{{K: ragen.KFlags, T: "i"}}, prog.Files[reach[0]]...)
		r := generate(&cp)
		out.Detail["program"] = cp.MainText()
		out.Detail["file_with_flags"] = reach[0]
		out.Detail["exit"], out.Detail["stdout"] = r.Exit, r.Stdout
		if r.Exit == 0 || r.Stdout != "" {
			out.Violation = fmt.Sprintf("a flags line in included file %s is not rejected (exit %d, stdout %q)", reach[0], r.Exit, clip(r.Stdout, 80))
			return out
		}
		out.Labels = append(out.Labels, "flags-in-include-rejected")
		out.NonTrivial = true
		out.Key = "flags\x00" + prog.Canon()
		out.Sample = map[string]any{"variant": c.Variant, "program": prog.MainText(), "exit": r.Exit}
		return out
	}
	inl, err := prog.Inlined(ragen.ResolveOpt{ExpandInPrefixSuffix: true, PairMode: "seq"})
	if err != nil {
		out.HarnessError = "cannot inline: " + err.Error()
		return out
	}
	a := runC05(prog, c.Global, c.Linked)
	b := generate(inl)
	out.Detail["global"], out.Detail["linked"] = c.Global, c.Linked
	out.Detail["program"] = prog.MainText()
	out.Detail["files"] = prog.Tree()
	out.Detail["inlined"] = inl.MainText()
	out.Detail["out_include"], out.Detail["exit_include"] = a.Stdout, a.Exit
	out.Detail["out_inlined"], out.Detail["exit_inlined"] = b.Stdout, b.Exit
	if a.Exit != b.Exit {
		out.Detail["stderr_include"] = tailLines(a.Stderr, 6)
		out.Detail["stderr_inlined"] = tailLines(b.Stderr, 6)
		out.Violation = fmt.Sprintf("generate exits %d with the include and %d with the lines typed in place", a.Exit, b.Exit)
		return out
	}
	if a.Stdout != b.Stdout {
		// byte difference: decide whether at least the languages agree (reported either way)
		cmp := reqv.Compare(a.Stdout, b.Stdout, reqv.Options{MaxState: maxStates()})
		out.Detail["language_verdict"] = cmp.Verdict.String()
		out.Detail["witness"] = cmp.Witness
		out.Violation = fmt.Sprintf("regex differs between the including file and the hand-inlined file (languages %s)", cmp.Verdict)
		return out
	}
	if hasLabel(c.Lab, "main-references-include-definition") && a.Exit == 0 {
		// Asked of a probe (include of the defining file + the one entry `zz{{name}}`) and as membership of the
		// literal text: in the full output the optimiser may factor `\{\{` apart, a substring test would be unsound
		for _, n := range fileNames(prog) {
			for _, l := range prog.Files[n] {
				if l.K != ragen.KDefine {
					continue
				}
				base := strings.TrimSuffix(strings.TrimPrefix(strings.TrimPrefix(n, "include/"), "exclude/"), ".ra")
				if lines, ok := prog.Lookup(base); !ok || len(lines) == 0 || &lines[0] != &prog.Files[n][0] {
					continue // shadowed by a file of the same name in the other directory
				}
				pr := &ragen.Program{Main: []ragen.Line{{K: ragen.KInclude, File: base}, {K: ragen.KEntry, T: "zz{{" + l.Name + "}}"}}, Files: prog.Files, Config: prog.Config}
				r := generate(pr)
				if r.Exit != 0 {
					continue
				}
				if m, err := reqv.FullMatch(r.Stdout, "zz{{"+l.Name+"}}"); err == nil && !m {
					out.Detail["probe"], out.Detail["probe_out"] = pr.MainText(), r.Stdout
					out.Violation = "a definition made in an included file leaked into the including file: `zz{{" + l.Name + "}}` typed after `include " + base + "` no longer matches that literal text"
					return out
				}
				break
			}
		}
	}
	nInc := len(reach)
	out.NonTrivial = nInc > 0 && a.Exit == 0
	out.Labels = append(out.Labels, fmt.Sprintf("reachable-files:%d", nInc))
	out.Key = prog.Canon()
	out.Sample = map[string]any{"program": prog.MainText(), "included_files": reach, "inlined": clip(inl.MainText(), 400), "generated": clip(a.Stdout, 200)}
	return out
}

func TestC05(t *testing.T) { RunProp(t, "C05", genC05, checkC05) }
