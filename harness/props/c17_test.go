package props

import (
	"fmt"
	"strings"
	"testing"
	"time"
	"verifharness/ragen"

	"pgregory.net/rapid"

	"verifharness/cli"
	"verifharness/reqv"
)

// C17 — no silent truncation: long lines and large files are processed completely.

type C17Case struct {
	// IncAffix: the included file declares a prefix and / or suffix of its own (generate-include, generate-include-except)
	IncAffix string `json:"inc_affix,omitempty"`
	// Align: the long line's length is chosen so that the file's bytes up to and including its line feed are exactly 64 KiB
	Align bool   `json:"align,omitempty"`
	Cmd     string   `json:"cmd"`  // generate | generate-include | format | renumber | copyright
	Long    string   `json:"long"` // entry | comment (what the long line is)
	Len     int      `json:"len"`
	Pos     int      `json:"pos"` // index of the long line among the payload lines
	Words   []string `json:"words"`
	FinalNL bool     `json:"final_nl"`
	// Trace: run with -l trace (the log level must not change what is carried through)
	Trace bool `json:"trace,omitempty"`
}

var c17Words = []string{"alpha", "bravo", "charlie", "delta", "echo", "foxtrot", "golf", "hotel", "india", "juliet", "kilo", "lima"}

func genC17(t *rapid.T) C17Case {
	lens := []int{1, 200, 1023, 1024, 1025, 1500, 4096, 65000, 65535, 65536, 65537, 70000, 131072, 65536, 65537, 70000, 131072, 1048576}
	if thorough() {
		lens = append(lens, 262144, 1048576, 1048577, 2097152)
	}
	c := C17Case{
		Cmd:     rapid.SampledFrom([]string{"generate", "generate", "generate-cmdline", "generate-include", "generate-include-pairs", "generate-include-except", "generate-definition", "format", "renumber", "copyright", "update-compare"}).Draw(t, "cmd"),
		Long:    rapid.SampledFrom([]string{"entry", "entry", "comment"}).Draw(t, "long"),
		Len:     rapid.SampledFrom(lens).Draw(t, "len"),
		FinalNL: rapid.IntRange(0, 3).Draw(t, "finalnl") != 0,
	}
	if rapid.IntRange(0, 4).Draw(t, "jitter") == 0 {
		c.Len += rapid.IntRange(-3, 3).Draw(t, "dlen")
		if c.Len < 1 {
			c.Len = 1
		}
	}
	if c.Cmd == "format" {
		// format rebuilds directive lines from their parts: a long value must survive that too
		c.Long = rapid.SampledFrom([]string{"entry", "comment", "define", "prefix", "suffix", "include-pairs"}).Draw(t, "longfmt")
	}
	c.Trace = rapid.IntRange(0, 4).Draw(t, "trace") == 0
	n := rapid.SampledFrom([]int{0, 0, 1, 2, 3, 4, 5, 6}).Draw(t, "words") // 0: the long line is the only line
	perm := rapid.Permutation(c17Words).Draw(t, "perm")
	c.Words = perm[:n]
	c.Pos = rapid.IntRange(0, n).Draw(t, "pos")
	if c.Cmd == "generate-include" || c.Cmd == "generate-include-except" {
		c.IncAffix = rapid.SampledFrom([]string{"", "", "prefix", "suffix", "both"}).Draw(t, "incaffix")
	}
	if strings.HasPrefix(c.Cmd, "generate") && c.Cmd != "generate-definition" && c.Cmd != "generate-cmdline" {
		if rapid.IntRange(0, 5).Draw(t, "align") == 0 || (c.IncAffix != "" && rapid.Bool().Draw(t, "alignaffix")) {
			// a cumulative boundary instead of a per-line one: everything up to the end of the long line fills 64 KiB exactly
			c.Align, c.Long = true, "entry"
			c.Len = 65536 - 1
			for _, w := range c.Words[:c.Pos] {
				c.Len -= len(w) + 1
			}
		}
	}
	return c
}

func (c C17Case) longToken() string {
	// a literal token of exactly Len bytes that is distinct from every word
	if c.Len <= 2 {
		return strings.Repeat("z", c.Len)
	}
	return "z" + strings.Repeat("q", c.Len-2) + "z"
}

func checkC17(c C17Case) Outcome {
	out := Outcome{Detail: map[string]any{"cmd": c.Cmd, "len": c.Len, "pos": c.Pos, "words": c.Words, "long": c.Long, "final_nl": c.FinalNL}}
	out.Labels = []string{"cmd:" + c.Cmd, "long:" + c.Long}
	switch {
	case c.Len >= 65536:
		out.Labels = append(out.Labels, "len>=64KiB")
	case c.Len >= 65000:
		out.Labels = append(out.Labels, "len-just-below-64KiB")
	default:
		out.Labels = append(out.Labels, "len-small")
	}
	tok := c.longToken()
	sb := cli.NewSandbox("c17")
	defer sb.Close()
	root := sb.Path("crs")
	join := func(lines []string) string {
		s := strings.Join(lines, "\n")
		if c.FinalNL {
			s += "\n"
		}
		return s
	}
	insert := func(words []string, long string) []string {
		l := append([]string{}, words[:c.Pos]...)
		l = append(l, long)
		return append(l, words[c.Pos:]...)
	}
	run := func(stdin string, args ...string) cli.Result {
		global := []string{"-d", root}
		if c.Trace {
			global = []string{"-l", "trace", "-d", root}
		}
		return cli.Run(cli.Opt{Dir: sb.Root, Stdin: stdin, Timeout: 120 * time.Second}, append(global, args...)...)
	}
	if c.Trace {
		out.Labels = append(out.Labels, "log-level-trace")
	}
	loud := func(r cli.Result, targets map[string]string) (bool, string) {
		if r.Exit == 0 {
			return false, ""
		}
		for p, want := range targets {
			if got := sb.Read("crs/" + p); got != want {
				return true, fmt.Sprintf("exit %d but %s was modified", r.Exit, p)
			}
		}
		return true, ""
	}
	switch c.Cmd {
	case "update-compare":
		// a rules file whose first rule has a very long operand; the addressed rule comes after it
		long := "SecRule ARGS \"@rx " + tok + "\" \\\n    \"id:932050,\\\n    phase:2\"\n"
		rules := "# header\n" + long + "SecRule ARGS \"@rx old\" \\\n    \"id:932100,\\\n    phase:2\"\n"
		tree := cli.Tree{"regex-assembly/932100.ra": strings.Join(append([]string{"first"}, c.Words...), "\n") + "\n", "regex-assembly/932050.ra": tok + "\n", "rules/REQUEST-932-X.conf": rules}
		if err := tree.Write(root); err != nil {
			panic(err)
		}
		g := run("", "regex", "generate", "932100")
		u := run("", "regex", "update", "932100")
		if u.Exit != 0 {
			out.Labels = append(out.Labels, "loud-failure")
			if sb.Read("crs/rules/REQUEST-932-X.conf") != rules {
				out.Violation = "update failed but modified the rules file"
				return out
			}
			break
		}
		want := strings.Replace(rules, "\"@rx old\"", "\"@rx "+g.Stdout+"\"", 1)
		if got := sb.Read("crs/rules/REQUEST-932-X.conf"); got != want {
			out.Detail["got_len"], out.Detail["want_len"] = len(got), len(want)
			out.Violation = "exit 0 but the rules file after update is not the original with the operand replaced (content lost)"
			return out
		}
		for _, arg := range []string{"932100", "932050"} {
			cmp := run("", "regex", "compare", arg)
			if arg == "932100" && (cmp.Exit != 0 || !strings.Contains(cmp.Stdout, "has not changed")) {
				out.Detail["compare_exit"], out.Detail["compare_stderr"] = cmp.Exit, tailLines(cmp.Stderr, 3)
				out.Violation = "compare after update does not find / confirm the rule that follows a very long line"
				return out
			}
			if arg == "932050" && (cmp.Exit != 0 || !strings.Contains(cmp.Stdout, "has not changed")) {
				out.Detail["compare_exit"], out.Detail["compare_stderr"] = cmp.Exit, tailLines(cmp.Stderr, 3)
				out.Violation = "compare does not read back a very long operand completely"
				return out
			}
		}
	case "generate-definition":
		// no input line is long by itself: the expansion of a definition makes it long
		half := strings.Repeat("q", c.Len/2)
		lines := []string{"##!> define big " + half}
		lines = append(lines, insert(c.Words, "z{{big}}{{big}}z")...)
		tree := cli.Tree{"regex-assembly/": ""}
		if err := tree.Write(root); err != nil {
			panic(err)
		}
		r := run(join(lines), "regex", "generate", "-")
		out.Detail["exit"], out.Detail["stdout_len"] = r.Exit, len(r.Stdout)
		if r.Exit != 0 {
			if r.Stdout != "" {
				out.Violation = fmt.Sprintf("generate fails (exit %d) but still prints a regex", r.Exit)
				return out
			}
			out.Labels = append(out.Labels, "loud-failure")
			break
		}
		matcher, err := reqv.Matcher(r.Stdout)
		if err != nil {
			out.Violation = "output is not an RE2 expression: " + err.Error()
			return out
		}
		for _, w := range append(append([]string{}, c.Words...), "z"+half+half+"z") {
			if !matcher(w) {
				out.Detail["missing"] = clip(w, 40)
				out.Violation = fmt.Sprintf("exit 0 but entry %q is not accepted by the generated regex: input was silently truncated", clip(w, 40))
				return out
			}
		}
	case "generate-cmdline":
		// the long entry is a command of a cmdline block with the CRS patterns: every character gets the evasion
		// pattern behind it, the expression may exceed what the engine accepts; then the command must say so
		cfg, _ := ragen.CRSLike()
		tree := cli.Tree{"regex-assembly/toolchain.yaml": *cfg}
		if err := tree.Write(root); err != nil {
			panic(err)
		}
		// two sizes only: one the engine still accepts after expansion, one it does not
		n := c.Len
		if n > 200000 {
			n = 400000
		} else if n > 20000 {
			n = 20000
		}
		long := strings.Repeat("q", n)
		lines := append([]string{"before"}, "##!> cmdline unix", "inblock", long, "##!<", "after")
		r := run(join(lines), "regex", "generate", "-")
		out.Detail["exit"] = r.Exit
		if r.Exit != 0 {
			if r.Stdout != "" {
				out.Violation = "generate failed but printed a regex"
				return out
			}
			out.Labels = append(out.Labels, "loud-failure")
			break
		}
		for _, w := range []string{"before", "after", "inblock"} {
			m, err := reqv.FullMatch(r.Stdout, w)
			if err != nil {
				out.Inconclusive = "the oracle cannot compile the generated expression: " + err.Error()
				break
			}
			if !m {
				out.Violation = fmt.Sprintf("exit 0 but %q is not accepted by the generated regex: part of the input was silently dropped", w)
				return out
			}
		}
	case "generate", "generate-include", "generate-include-pairs", "generate-include-except":
		long := tok
		if c.Long == "comment" {
			long = "##! " + tok
		}
		lines := insert(c.Words, long)
		tree := cli.Tree{"regex-assembly/": ""}
		stdin := join(lines)
		pre, suf := "", ""
		if c.IncAffix == "prefix" || c.IncAffix == "both" {
			pre = "pre-"
			stdin = "##!^ pre-\n" + stdin
		}
		if c.IncAffix == "suffix" || c.IncAffix == "both" {
			suf = "-suf"
			stdin = "##!$ -suf\n" + stdin
		}
		if c.IncAffix != "" {
			out.Labels = append(out.Labels, "include-file-with-own-prefix-or-suffix")
		}
		if c.Align {
			out.Labels = append(out.Labels, "lines-up-to-the-long-one-fill-64KiB-exactly")
		}
		switch c.Cmd {
		case "generate-include":
			tree["regex-assembly/include/big.ra"] = stdin
			stdin = "lead\n##!> include big\n"
		case "generate-include-pairs":
			tree["regex-assembly/include/big.ra"] = stdin
			stdin = "lead\n##!> include big -- @ \"\" ~ x\n"
		case "generate-include-except":
			tree["regex-assembly/include/big.ra"] = stdin
			tree["regex-assembly/exclude/none.ra"] = "nothing-in-common\n"
			stdin = "lead\n##!> include-except big none\n"
		}
		if err := tree.Write(root); err != nil {
			panic(err)
		}
		r := run(stdin, "regex", "generate", "-")
		out.Detail["exit"], out.Detail["stdout_len"] = r.Exit, len(r.Stdout)
		if isLoud, _ := loud(r, nil); isLoud {
			if r.Stdout != "" {
				out.Violation = fmt.Sprintf("generate fails (exit %d) but still prints a regex", r.Exit)
				return out
			}
			out.Labels = append(out.Labels, "loud-failure")
			break
		}
		must := []string{}
		for _, w := range c.Words {
			must = append(must, pre+w+suf)
		}
		if c.Long == "entry" {
			must = append(must, pre+tok+suf)
		}
		if c.Cmd != "generate" {
			must = append(must, "lead")
		}
		matcher, err := reqv.Matcher(r.Stdout)
		if err != nil {
			out.Violation = "output is not an RE2 expression: " + err.Error()
			return out
		}
		for _, w := range must {
			if !matcher(w) {
				out.Detail["missing"] = clip(w, 40)
				out.Detail["stdout"] = clip(r.Stdout, 300)
				out.Violation = fmt.Sprintf("exit 0 but entry %q is not accepted by the generated regex: input was silently truncated", clip(w, 40))
				return out
			}
		}
	case "format":
		long := tok
		switch c.Long {
		case "comment":
			long = "##! " + tok
		case "define":
			long = "##!> define longname " + tok
		case "prefix":
			long = "##!^ " + tok
		case "suffix":
			long = "##!$ " + tok
		case "include-pairs":
			long = "##!> include words -- @ " + tok
		}
		lines := insert(c.Words, long)
		content := join(lines)
		tree := cli.Tree{"regex-assembly/932100.ra": content, "regex-assembly/include/words.ra": "w1@\nw2\n"}
		if err := tree.Write(root); err != nil {
			panic(err)
		}
		r := run("", "regex", "format", "932100")
		out.Detail["exit"] = r.Exit
		if isLoud, msg := loud(r, map[string]string{"regex-assembly/932100.ra": content}); isLoud {
			if msg != "" {
				out.Violation = msg
				return out
			}
			out.Labels = append(out.Labels, "loud-failure")
			break
		}
		want := raHeader + "\n" + strings.Join(lines, "\n") + "\n"
		if got := sb.Read("crs/regex-assembly/932100.ra"); got != want {
			out.Detail["got_len"], out.Detail["want_len"] = len(got), len(want)
			out.Detail["got_lines"], out.Detail["want_lines"] = strings.Count(got, "\n"), strings.Count(want, "\n")
			out.Violation = "exit 0 but the formatted file does not carry every line through"
			return out
		}
	case "renumber":
		// the long line is a payload line of the second test
		pre := []string{"---", "tests:", "  - test_id: 7", "    desc: first"}
		if len(c.Words) == 0 {
			pre = nil // the whole file is one long line (e.g. minified JSON, which is legal YAML)
		}
		body := []string{}
		for i, w := range c.Words {
			body = append(body, fmt.Sprintf("  - test_id: %d", 50+i), "    data: "+w)
		}
		long := "    data: \"" + tok + "\""
		at := 2 * c.Pos
		lines := append(append([]string{}, pre...), body[:at]...)
		lines = append(lines, long)
		lines = append(lines, body[at:]...)
		content := join(lines)
		rel := "tests/regression/tests/R/932100.yaml"
		tree := cli.Tree{"regex-assembly/": "", rel: content}
		if err := tree.Write(root); err != nil {
			panic(err)
		}
		r := run("", "util", "renumber-tests", "932100")
		out.Detail["exit"] = r.Exit
		if isLoud, msg := loud(r, map[string]string{rel: content}); isLoud {
			if msg != "" {
				out.Violation = msg
				return out
			}
			out.Labels = append(out.Labels, "loud-failure")
			break
		}
		var wl []string
		k := 0
		for _, l := range lines {
			if strings.Contains(l, "test_id:") {
				k++
				l = fmt.Sprintf("  - test_id: %d", k)
			}
			wl = append(wl, l)
		}
		want := strings.Join(wl, "\n") + "\n"
		if got := sb.Read("crs/" + rel); got != want {
			out.Detail["got_len"], out.Detail["want_len"] = len(got), len(want)
			out.Detail["got_lines"], out.Detail["want_lines"] = strings.Count(got, "\n"), strings.Count(want, "\n")
			out.Violation = "exit 0 but the renumbered test file does not carry every line through (content lost)"
			return out
		}
	case "copyright":
		lines := []string{"# OWASP CRS ver.4.0.0", "# Copyright (c) 2021-2024 CRS project. All rights reserved."}
		if len(c.Words) == 0 {
			lines = nil
		}
		var body []string
		for _, w := range c.Words {
			body = append(body, "SecRule ARGS \"@rx "+w+"\" \"id:1,ver:'OWASP_CRS/4.0.0'\"")
		}
		long := "SecRule ARGS \"@rx " + tok + "\" \"id:2,ver:'OWASP_CRS/4.0.0'\""
		if c.Long == "comment" {
			long = "# " + tok
		}
		lines = append(lines, insert(body, long)...)
		content := join(lines)
		rel := "rules/REQUEST-932-X.conf"
		tree := cli.Tree{"regex-assembly/": "", rel: content}
		if err := tree.Write(root); err != nil {
			panic(err)
		}
		r := run("", "chore", "update-copyright", "-v", "4.1.0", "-y", "2026")
		out.Detail["exit"] = r.Exit
		if isLoud, msg := loud(r, map[string]string{rel: content}); isLoud {
			if msg != "" {
				out.Violation = msg
				return out
			}
			out.Labels = append(out.Labels, "loud-failure")
			break
		}
		want := strings.Join(lines, "\n") + "\n"
		want = strings.ReplaceAll(want, "ver.4.0.0", "ver.4.1.0")
		want = strings.ReplaceAll(want, "2021-2024", "2021-2026")
		want = strings.ReplaceAll(want, "OWASP_CRS/4.0.0", "OWASP_CRS/4.1.0")
		if got := sb.Read("crs/" + rel); got != want {
			out.Detail["got_len"], out.Detail["want_len"] = len(got), len(want)
			out.Detail["got_lines"], out.Detail["want_lines"] = strings.Count(got, "\n"), strings.Count(want, "\n")
			out.Violation = "exit 0 but the rewritten rules file does not carry every line through (content lost)"
			return out
		}
	}
	out.NonTrivial = c.Len >= 65536 && (c.Pos < len(c.Words) || len(c.Words) == 0)
	out.Key = fmt.Sprintf("%s/%s/%d/%d/%v/%v", c.Cmd, c.Long, c.Len, c.Pos, c.Words, c.FinalNL)
	out.Sample = map[string]any{"cmd": c.Cmd, "long_line_kind": c.Long, "long_line_bytes": c.Len, "position": c.Pos, "other_lines": len(c.Words), "final_newline": c.FinalNL}
	return out
}

func TestC17(t *testing.T) { RunProp(t, "C17", genC17, checkC17) }
