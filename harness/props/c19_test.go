package props

import (
	"fmt"
	"strings"
	"testing"
	"time"

	"pgregory.net/rapid"

	"verifharness/cli"
	"verifharness/ragen"
)

// C19 — generate never crashes or hangs, whatever bytes it is given.

type C19Case struct {
	Stdin string            `json:"stdin"`
	Files map[string]string `json:"files,omitempty"` // below regex-assembly/
	Kind  string            `json:"kind"`
	// Cmd: "" = generate from stdin; otherwise a command built on generate that reads the same text
	// from regex-assembly/932100.ra: generate-id | update | compare | format | format-check
	Cmd string `json:"cmd,omitempty"`
	// MaxFiles: descriptor limit for the run (include cycles end when descriptors run out; 0 = inherited)
	MaxFiles int `json:"max_files,omitempty"`
	// MaxMemKB: address-space limit for the run (definitions that double with every level)
	MaxMemKB int `json:"max_mem_kb,omitempty"`
	// Rules: "" = a well-formed rules file; otherwise the text of a damaged one (update / compare must say so, not crash)
	Rules string `json:"rules,omitempty"`
}

var c19DamagedRules = []string{
	"    \"id:932100,\\\n    phase:2\"\n", // the id line is the first line of the file
	"\"id:932100,\\\n",                    // nothing else
	"",                                    // empty file
	"# only a comment mentioning id:932100\n",
	"SecRule ARGS \"@rx old\" \\\n",                                  // the rule ends after its first line
	"SecRule ARGS \"@rx old\" \\\n    \"id:932100,\\\n    chain\"\n", // a chain that never continues
	"SecRule ARGS \"@pm old\" \\\n    \"id:932100\"\n",
}

var hostile = []string{`\(?i:`, `\(?i:a`, `[(]?-s:`, `\x28?i:`, `(?:a\)|b)`, `[|]`, `\|`, `[\\]`, `\(?s)`, `\(?-s:.)`, `\(?m:^)`, `[(]?i:x)`, `\(?i:a|b)`, `(?:`, `)`, `(`, `[`, `]`, `{{`, `}}`, `{{x}}`,
	`\`, `\\`, `"`, `|`, `||`, `(?i:a)`, `(?-s:.)`, `(?s:.)`, `(?m:^)`, `(?i)`, `(?U)a*`, `(?P<n>a)`, `(?P<`, `\Q`, `\E`, `\Qa`, `a{`, `a{2`, `a{2,1}`, `a{1001}`, `**`, `+?*`, `[a-`, `[z-a]`, `[[:foo:]]`, `\p{Greek}`, `\pL`, `\C`, `\8`, `\x`, `\x{`, `\x{110000}`, `\xg`, "\x00", "\xff", "\xc3", "é", " ", "\t", "\r", "\x0b", "\x7f",
	`^`, `$`, `.`, `.*`, `\b`, `\z`, `\s`, `[\s -z]`, `(?:.|\n)`, `[aA]`, `()`, `(|)`, `(?:)`, `(?:|)`, `a|`, `|a`, `(?:^|$)`, `(?:(?:(?:a)))`, `((((a))))`, `(?:a)(?:b)`, `(?:a|b)(?:c|d)`}

var directiveFrag = []string{"##!>", "##!> ", "##!<", "##!=>", "##!=<", "##!=> ", "##!=< ", "##!^", "##!^ ", "##!$", "##!$ ", "##!+", "##!+ ", "##!", "##! ", "##", "#", "assemble", "cmdline", "cmdline unix", "cmdline windows", "cmdline foo", "cmdline", "unix", "windows", "include", "include ", "include-except", "include-except ", "define", "define ", "define x", "define x y", "--", " -- ", `""`, "a b", "f0", "f1", "missing", "x", "s0", "i", "s", "is", "x i", " ", "\t", "  "}

func genC19(t *rapid.T) C19Case {
	kind := rapid.SampledFrom([]string{"program", "program", "program", "program", "soup"}).Draw(t, "kind")
	c := C19Case{Kind: kind, Files: map[string]string{}}
	if kind == "soup" {
		n := rapid.IntRange(0, 12).Draw(t, "lines")
		var sb strings.Builder
		for i := 0; i < n; i++ {
			m := rapid.IntRange(0, 5).Draw(t, "toks")
			for j := 0; j < m; j++ {
				if rapid.Bool().Draw(t, "dir") {
					sb.WriteString(rapid.SampledFrom(directiveFrag).Draw(t, "frag"))
				} else {
					sb.WriteString(rapid.SampledFrom(hostile).Draw(t, "host"))
				}
			}
			sb.WriteString(rapid.SampledFrom([]string{"\n", "\n", "\n", "\r\n", ""}).Draw(t, "eol"))
		}
		c.Stdin = sb.String()
		c.Cmd = rapid.SampledFrom([]string{"", "", "", "", "generate-id", "update", "compare", "format", "format-check"}).Draw(t, "cmd")
		for i := 0; i < 2; i++ {
			if rapid.Bool().Draw(t, "file") {
				var fb strings.Builder
				for j := rapid.IntRange(0, 4).Draw(t, "flines"); j > 0; j-- {
					if rapid.Bool().Draw(t, "fdir") {
						fb.WriteString(rapid.SampledFrom(directiveFrag).Draw(t, "ffrag"))
					}
					fb.WriteString(rapid.SampledFrom(hostile).Draw(t, "fhost"))
					fb.WriteString("\n")
				}
				c.Files[fmt.Sprintf("include/f%d.ra", i)] = fb.String()
			}
		}
		return withDamagedRules(t, c)
	}
	g := ragen.GenProgram(t, ragen.GenOpt{
		Rx:       ragen.RxOpt{Stress: 20, MaxDepth: 2},
		MaxDepth: 2, MaxItems: 6, Flags: true, PrefixSuffix: true, Defs: true, DefsInPS: true,
		Includes: true, Excepts: true, Pairs: true, IncludePS: true, IncludeDefs: true, Cmdline: true, StoreLoad: true, Noise: true,
	})
	// splice hostile atoms into entry lines (main and include files)
	splice := func(lines []ragen.Line) {
		for i := range lines {
			if lines[i].K != ragen.KEntry && lines[i].K != ragen.KPrefix && lines[i].K != ragen.KSuffix {
				continue
			}
			if rapid.IntRange(0, 2).Draw(t, "splice?") != 0 {
				continue
			}
			h := rapid.SampledFrom(hostile).Draw(t, "h")
			if d3Excluded() && d3Shape(h) {
				continue
			}
			switch rapid.IntRange(0, 2).Draw(t, "where") {
			case 0:
				lines[i].T = h + lines[i].T
			case 1:
				lines[i].T += h
			default:
				p := rapid.IntRange(0, len(lines[i].T)).Draw(t, "pos")
				lines[i].T = lines[i].T[:p] + h + lines[i].T[p:]
			}
		}
	}
	splice(g.Prog.Main)
	names := make([]string, 0, len(g.Prog.Files))
	for n := range g.Prog.Files {
		names = append(names, n)
	}
	sortStrings(names)
	for _, n := range names {
		splice(g.Prog.Files[n])
	}
	// hostile directive lines (odd replacement lists, missing arguments, glued text)
	if rapid.IntRange(0, 7).Draw(t, "hostiledirective") == 0 {
		l := ragen.Line{K: ragen.KRaw, T: rapid.SampledFrom([]string{
			"##!> include f0 -- a", "##!> include f0 -- a b c", "##!> include-except f0 f1 -- a b c", "##!> include f0 --", "##!> include nosuch -- x",
			"##!> include-except f0", "##!> include-except", "##!> include", "##!> define", "##!> define x", "##!> cmdline", "##!> cmdline  ", "##!>", "##!> assemble x y",
			"##!> cmdline unix\n##!> include hd-shells -- sh \"\"\n##!<", "##!> cmdline windows\n##!> include-except hd-shells hd-none -- a \"\" sh \"\"\n##!<", "##!> include hd-shells -- bash \"\" sh \"\" a \"\"",
			"##!> define loop {{loop}}\nx{{loop}}y", "##!> define a {{b}}\n##!> define b {{a}}\n{{a}}", "##!> define g a{{g}}\n##!^ {{g}}", "##!> define u {{undefined}}\n{{u}}{{u}}",
			"##!=<", "##!=> ", "##!+", "##!+ ", "##!^", "##!$", "##!+ isx", "##!<", "##!< ##!<",
		}).Draw(t, "hd")}
		pos := rapid.IntRange(0, len(g.Prog.Main)).Draw(t, "hdpos")
		g.Prog.Main = append(g.Prog.Main[:pos], append([]ragen.Line{l}, g.Prog.Main[pos:]...)...)
	}
	// include files that include each other (or themselves): no regex exists, the command must say so promptly
	cyc := rapid.IntRange(0, 29).Draw(t, "cycle")
	if cyc < 3 {
		dir := rapid.SampledFrom([]string{"include/", "include/", "exclude/"}).Draw(t, "cycdir")
		switch cyc {
		case 0:
			c.Files[dir+"cyc-a.ra"] = "one\n##!> include cyc-b\n"
			c.Files[dir+"cyc-b.ra"] = "two\n##!> include cyc-a\nthree\n"
		case 1:
			c.Files[dir+"cyc-a.ra"] = "one\n##!> include cyc-a\n"
		default:
			c.Files[dir+"cyc-a.ra"] = "one\n##!> include-except cyc-b cyc-c\n"
			c.Files[dir+"cyc-b.ra"] = "two\n##!> include cyc-a\n"
			c.Files[dir+"cyc-c.ra"] = "three\n"
		}
		l := ragen.Line{K: ragen.KRaw, T: "##!> include cyc-a"}
		pos := rapid.IntRange(0, len(g.Prog.Main)).Draw(t, "cycpos")
		g.Prog.Main = append(g.Prog.Main[:pos], append([]ragen.Line{l}, g.Prog.Main[pos:]...)...)
		c.MaxFiles = 256
		c.Kind = "program-with-include-cycle"
	}
	// a few hundred bytes of definitions that double with every level: no regex of that size can be wanted,
	// the command must say so promptly instead of allocating until the machine gives up
	if rapid.IntRange(0, 199).Draw(t, "doubling") == 0 {
		depth := rapid.IntRange(25, 27).Draw(t, "doublingdepth")
		var db strings.Builder
		db.WriteString("##!> define a0 xxxxxxxxxx\n")
		for i := 1; i <= depth; i++ {
			fmt.Fprintf(&db, "##!> define a%d {{a%d}}{{a%d}}\n", i, i-1, i-1)
		}
		fmt.Fprintf(&db, "{{a%d}}", depth)
		g.Prog.Main = append(g.Prog.Main, ragen.Line{K: ragen.KRaw, T: db.String()})
		c.MaxMemKB = 1500000
		c.Kind = "program-with-doubling-definitions"
	}
	c.Stdin = g.Prog.MainText()
	if strings.Contains(c.Stdin, "hd-shells") {
		// word lists whose entries are eaten whole by the replacements above
		c.Files["include/hd-shells.ra"] = "sh\nbash\na\nab\n"
		c.Files["exclude/hd-none.ra"] = "zsh\n"
	}
	c.Cmd = rapid.SampledFrom([]string{"", "", "", "", "", "generate-id", "update", "compare", "format", "format-check"}).Draw(t, "cmd")
	for n, l := range g.Prog.Files {
		c.Files[n] = ragen.Print(l, "\n", true)
	}
	if g.Prog.Config != nil {
		c.Files["toolchain.yaml"] = *g.Prog.Config
	}
	return withDamagedRules(t, c)
}

func d3Excluded() bool { return openFinding("D3") }

// d3Shape: an escaped (or bracketed) opening parenthesis followed by text that looks like a flag group.
func d3Shape(s string) bool {
	for _, p := range []string{`\(?`, `[(]?`, `\x28?`} {
		if strings.Contains(s, p) {
			return true
		}
	}
	return false
}

func sortStrings(s []string) {
	for i := 1; i < len(s); i++ {
		for j := i; j > 0 && s[j] < s[j-1]; j-- {
			s[j], s[j-1] = s[j-1], s[j]
		}
	}
}

func runC19(c C19Case, timeout time.Duration) cli.Result {
	sb := cli.NewSandbox("c19")
	defer sb.Close()
	t := cli.Tree{"regex-assembly/": ""}
	for k, v := range c.Files {
		t["regex-assembly/"+k] = v
	}
	if c.Cmd != "" {
		t["regex-assembly/932100.ra"] = c.Stdin
		t["rules/REQUEST-932-X.conf"] = "SecRule ARGS \"@rx old\" \\\n    \"id:932100,\\\n    phase:2\"\n"
		if c.Rules != "" {
			t["rules/REQUEST-932-X.conf"] = strings.TrimPrefix(c.Rules, "\x00")
		}
	}
	if err := t.Write(sb.Path("crs")); err != nil {
		panic(err)
	}
	args := []string{"-d", sb.Path("crs"), "regex"}
	switch c.Cmd {
	case "generate-id":
		args = append(args, "generate", "932100")
	case "update":
		args = append(args, "update", "932100")
	case "compare":
		args = append(args, "compare", "932100")
	case "format":
		args = append(args, "format", "932100")
	case "format-check":
		args = append(args, "format", "--check", "932100")
	default:
		return cli.Run(cli.Opt{Dir: sb.Root, Stdin: c.Stdin, Timeout: timeout, MaxFiles: c.MaxFiles, MaxMemKB: c.MaxMemKB}, append(args, "generate", "-")...)
	}
	return cli.Run(cli.Opt{Dir: sb.Root, Timeout: timeout, MaxFiles: c.MaxFiles, MaxMemKB: c.MaxMemKB}, args...)
}

// withDamagedRules gives one case in four of update / compare a damaged rules file.
func withDamagedRules(t *rapid.T, c C19Case) C19Case {
	if (c.Cmd == "update" || c.Cmd == "compare") && rapid.IntRange(0, 3).Draw(t, "damagedrules") == 0 {
		r := rapid.SampledFrom(c19DamagedRules).Draw(t, "damagedrulesv")
		if r == "" {
			r = "\x00" // marks "the empty file" (an empty field means a well-formed file)
		}
		c.Rules = r
		c.Kind += "+damaged-rules-file"
	}
	return c
}

func checkC19(c C19Case) Outcome {
	out := Outcome{Detail: map[string]any{"cmd": c.Cmd}, Labels: []string{"kind:" + c.Kind, "cmd:" + map[bool]string{true: "generate-stdin", false: c.Cmd}[c.Cmd == ""]}}
	r := runC19(c, 10*time.Second)
	if r.TimedOut {
		// re-run twice alone with a longer limit before it counts
		r2 := runC19(c, 30*time.Second)
		r3 := runC19(c, 30*time.Second)
		if r2.TimedOut && r3.TimedOut {
			out.Detail["stdin"] = c.Stdin
			out.Violation = "generate did not terminate within 30 s (three attempts)"
			return out
		}
		r = r2
		if r2.TimedOut {
			r = r3
		}
		out.Labels = append(out.Labels, "slow-once")
	}
	out.Detail["stdin"] = c.Stdin
	out.Detail["exit"] = r.Exit
	out.Detail["stderr"] = headTail(r.Stderr, 6, 10)
	out.Detail["stdout"] = clip(r.Stdout, 400)
	if f := cli.RuntimeFault(r.Stderr); f != "" {
		out.Violation = fmt.Sprintf("runtime fault (%s), exit %d", f, r.Exit)
		return out
	}
	switch {
	case r.Exit == 0:
		out.Labels = append(out.Labels, "exit0")
	case r.Exit == 1:
		out.Labels = append(out.Labels, "exit1")
	case r.Exit == 2 && strings.Contains(r.Stderr, "panic:"):
		out.Labels = append(out.Labels, "exit2-deliberate-panic")
	default:
		out.Violation = fmt.Sprintf("unexpected exit status %d", r.Exit)
		return out
	}
	reached := r.Exit == 0 && (r.Stdout != "" || c.Cmd == "update" || strings.HasPrefix(c.Cmd, "format"))
	if reached {
		out.Labels = append(out.Labels, "reached-cleanup-passes")
	}
	hasHostile := false
	for _, h := range hostile {
		if len(h) > 1 && strings.Contains(c.Stdin, h) {
			hasHostile = true
			break
		}
	}
	out.NonTrivial = reached || hasHostile
	out.Key = c.Cmd + "\x00" + c.Stdin + "\x00" + fmt.Sprint(c.Files)
	out.Sample = map[string]any{"cmd": c.Cmd, "input": clip(c.Stdin, 300), "exit": r.Exit, "stdout": clip(r.Stdout, 120)}
	return out
}

func TestC19(t *testing.T) { RunProp(t, "C19", genC19, checkC19) }
