package props

import (
	"fmt"
	"os"
	"strings"
	"testing"
	"time"

	"pgregory.net/rapid"

	"verifharness/cli"
	"verifharness/ragen"
)

// C09 — format produces one canonical layout and is idempotent; --check agrees with it.

// genC09: one case in three also carries the lines on which parser and formatter may disagree (directives behind
// form feed / NBSP indentation, labelled end markers ...): no layout reference exists for those, but idempotence
// and the agreement of --check with format hold for every input.
func genC09(t *rapid.T) FmtCase {
	return genFmtCase(t, rapid.IntRange(0, 2).Draw(t, "withdisagreement") == 0)
}

// expectedLayout is the line-aligned reference layout for a structured case; ok=false when the
// case holds lines the layout sentence says nothing about (raw lines, unbalanced markers).
func expectedLayout(c FmtCase) (string, bool) {
	var src []ragen.Line
	switch c.Header {
	case "full":
		src = append(src, ragen.Line{K: ragen.KRaw, T: "##! Please refer to the documentation at"}, ragen.Line{K: ragen.KRaw, T: "##! https://coreruleset.org/docs/development/regex_assembly/."}, ragen.Line{K: ragen.KBlank})
	case "noblank":
		src = append(src, ragen.Line{K: ragen.KRaw, T: "##! Please refer to the documentation at"}, ragen.Line{K: ragen.KRaw, T: "##! https://coreruleset.org/docs/development/regex_assembly/."})
	}
	nHead := len(src)
	src = append(src, c.Lines...)
	var lines []string
	depth := 0
	for i, l := range src {
		if l.K == ragen.KRaw && i >= nHead {
			return "", false
		}
		var text string
		ind := depth
		switch l.K {
		case ragen.KBlank:
			lines = append(lines, "")
			continue
		case ragen.KAStart:
			text = "##!> assemble"
			depth++
		case ragen.KCStart:
			text = "##!> cmdline " + l.Cmd
			depth++
		case ragen.KEnd:
			depth--
			if depth < 0 {
				return "", false
			}
			ind = depth
			text = "##!<" + l.Trail
		case ragen.KFlags:
			text, ind = "##!+ "+l.T, 0
		case ragen.KPrefix:
			text, ind = "##!^ "+l.T, 0
		case ragen.KSuffix:
			text, ind = "##!$ "+l.T, 0
		case ragen.KDefine:
			text = "##!> define " + l.Name + " " + l.T
		case ragen.KInclude:
			text = "##!> include " + l.File
			if len(l.Pairs) > 0 {
				text += " -- " + strings.Join(l.Pairs, " ")
			}
		case ragen.KExcept:
			text = "##!> include-except " + l.File + " " + strings.Join(l.Excl, " ")
			if len(l.Pairs) > 0 {
				text += " -- " + strings.Join(l.Pairs, " ")
			}
		default:
			text = l.Body() + l.Trail
		}
		lines = append(lines, strings.Repeat("  ", ind)+text)
	}
	return finishLayout(lines), true
}

// finishLayout applies the header and end-of-file rules to already normalised lines.
func finishLayout(lines []string) string {
	hasHeader := len(lines) >= 3 && lines[0]+"\n"+lines[1]+"\n"+lines[2] == raHeader
	keep := 0
	if hasHeader {
		keep = 3
	}
	for len(lines) > keep && lines[len(lines)-1] == "" {
		lines = lines[:len(lines)-1]
	}
	body := strings.Join(lines, "\n")
	if !hasHeader {
		if body == "" {
			return raHeader + "\n"
		}
		return raHeader + "\n" + body + "\n"
	}
	return body + "\n"
}

// lintMayApply: the upper-case-in-class lint of --check can fire only with the i flag and an
// unescaped upper-case letter after an opening bracket.
func lintMayApply(content string) bool {
	iflag := false
	for _, l := range strings.Split(content, "\n") {
		tl := strings.TrimLeft(l, " \t")
		if strings.HasPrefix(tl, "##!+") && strings.Contains(tl[4:], "i") {
			iflag = true
		}
	}
	if !iflag {
		return false
	}
	for _, l := range strings.Split(content, "\n") {
		if j := strings.Index(l, "["); j >= 0 {
			for k := j; k < len(l); k++ {
				if l[k] >= 'A' && l[k] <= 'Z' {
					return true
				}
			}
		}
	}
	return false
}

type fmtRun struct {
	Exit   int
	Stdout string
	Stderr string
}

func checkC09(c FmtCase) Outcome {
	out := Outcome{Labels: append([]string{"kind:" + c.Kind}, c.Lab...), Detail: map[string]any{}}
	content := c.Content()
	sb := cli.NewSandbox("c09")
	defer sb.Close()
	tree := cli.Tree{c.FileRel(): content, "rules/": ""}
	for n, v := range c.Files {
		tree["regex-assembly/"+n] = v
	}
	c.Sibling(tree)
	if c.Target != "" {
		out.Labels = append(out.Labels, "target:"+c.Target)
	}
	// a second tree for the --all form: the file under test plus properly formatted files that sort after it
	allTree := cli.Tree{c.FileRel(): content, "regex-assembly/942100.ra": raHeader + "\nfoo\n", "regex-assembly/include/zz.ra": raHeader + "\nbar\n", "rules/": ""}
	// files that are no assembly files and sort before assembly files in their directory
	allTree["regex-assembly/.gitkeep"] = ""
	allTree["regex-assembly/include/README.md"] = "# word lists\n"
	allTree["regex-assembly/include/.x.ra.swp"] = "swap"
	allRoot := sb.Path("crsall")
	if err := allTree.Write(allRoot); err != nil {
		panic(err)
	}
	root := sb.Path("crs")
	if err := tree.Write(root); err != nil {
		panic(err)
	}
	cli.Freeze(root)
	file := sb.Path("crs/" + c.FileRel())
	run := func(args ...string) fmtRun {
		r := cli.Run(cli.Opt{Dir: sb.Root, Timeout: 30 * time.Second}, append(append(c.Global(root), "regex", "format"), args...)...)
		return fmtRun{r.Exit, r.Stdout, r.Stderr}
	}
	read := func() string { b, _ := os.ReadFile(file); return string(b) }
	out.Detail["original"] = content

	before := cli.Snap(root)
	chk0 := run("--check", c.Arg())
	if d := cli.Diff(before, cli.Snap(root), true); len(d) > 0 {
		out.Detail["changed"] = d
		out.Violation = fmt.Sprintf("format --check modified the tree: %v", d)
		return out
	}
	f1r := run(c.Arg())
	f1 := read()
	out.Detail["format1"], out.Detail["format1_exit"] = f1, f1r.Exit
	if f1r.Exit != 0 {
		out.Labels = append(out.Labels, "format-fails")
		if _, ok := expectedLayout(c); ok && c.Kind == "structured" && !strings.Contains(f1r.Stderr, "is not supported") {
			// balanced blocks, known directives only: format has no reason to refuse this file
			out.Detail["stderr"] = tailLines(f1r.Stderr, 5)
			out.Violation = fmt.Sprintf("format refuses a well-formed file (exit %d)", f1r.Exit)
			return out
		}
		if f1 != content {
			out.Violation = fmt.Sprintf("format exited %d but changed the file", f1r.Exit)
			return out
		}
		if chk0.Exit == 0 {
			out.Violation = "format fails on this file but format --check reports success"
			return out
		}
		out.NonTrivial = true
		out.Key = content
		out.Sample = map[string]any{"content": clip(content, 300), "format_exit": f1r.Exit}
		return out
	}
	cli.Freeze(root)
	snap1 := cli.Snap(root)
	chk1 := run("--check", c.Arg())
	if d := cli.Diff(snap1, cli.Snap(root), true); len(d) > 0 {
		out.Violation = fmt.Sprintf("format --check modified the tree: %v", d)
		return out
	}
	f2r := run(c.Arg())
	f2 := read()
	f3r := run(c.Arg())
	f3 := read()
	out.Detail["format2"], out.Detail["format3"] = f2, f3
	if f2r.Exit != 0 || f3r.Exit != 0 {
		out.Violation = fmt.Sprintf("formatting the formatted file fails (exit %d / %d)", f2r.Exit, f3r.Exit)
		return out
	}
	if f2 != f1 {
		out.Violation = "formatting an already formatted file changes it (format² ≠ format¹)"
		return out
	}
	if f3 != f2 {
		out.Violation = "format³ ≠ format²"
		return out
	}
	if strings.Contains(c.Arg(), "-chain") {
		if b, _ := os.ReadFile(sb.Path("crs/regex-assembly/932100.ra")); string(b) != fmtSibling {
			out.Violation = "format " + c.Arg() + " rewrote the chain starter's file 932100.ra"
			return out
		}
	}
	lint := lintMayApply(content)
	if lint {
		out.Labels = append(out.Labels, "lint-may-apply")
	}
	if !lint {
		if chk1.Exit != 0 {
			out.Detail["check_stdout"] = chk1.Stdout
			out.Violation = fmt.Sprintf("format --check fails (exit %d) on freshly formatted output", chk1.Exit)
			return out
		}
		want0 := 0
		if content != f1 {
			want0 = 1
		}
		if (chk0.Exit != 0) != (want0 != 0) {
			out.Detail["check0_exit"] = chk0.Exit
			out.Violation = fmt.Sprintf("format --check exits %d on the original although format would %s it", chk0.Exit, map[bool]string{true: "change", false: "not change"}[content != f1])
			return out
		}
	}
	// layout: general facts for every file, line-aligned reference for structured ones
	if !strings.HasPrefix(f1, raHeader+"\n") {
		out.Violation = "formatted file does not start with the standard header followed by a blank line"
		return out
	}
	if !strings.HasSuffix(f1, "\n") || (strings.HasSuffix(f1, "\n\n") && f1 != raHeader+"\n") {
		out.Violation = "formatted file does not end with exactly one newline and no trailing empty line"
		return out
	}
	if strings.Contains(f1, "\r") && !strings.Contains(strings.ReplaceAll(content, "\r\n", "\n"), "\r") {
		out.Violation = "formatted file still contains carriage returns"
		return out
	}
	if c.Kind == "structured" {
		if want, ok := expectedLayout(c); ok {
			out.Labels = append(out.Labels, "layout-reference")
			if want != f1 {
				out.Detail["expected_layout"] = want
				wl, gl := strings.Split(want, "\n"), strings.Split(f1, "\n")
				for i := 0; i < len(wl) && i < len(gl); i++ {
					if wl[i] != gl[i] {
						out.Detail["first_difference"] = fmt.Sprintf("line %d: want %q got %q", i+1, wl[i], gl[i])
						break
					}
				}
				out.Violation = "formatted file differs from the canonical layout"
				return out
			}
		}
	}
	// --check --all must fail exactly when some file would be changed, whatever the order of the files
	if !lint {
		ra := cli.Run(cli.Opt{Dir: sb.Root, Timeout: 30 * time.Second}, "-d", allRoot, "regex", "format", "--check", "--all")
		if (ra.Exit != 0) != (content != f1) {
			out.Detail["check_all_exit"] = ra.Exit
			out.Violation = fmt.Sprintf("format --check --all exits %d although %s needs formatting", ra.Exit, map[bool]string{true: "a file", false: "no file"}[content != f1])
			return out
		}
		rg := cli.Run(cli.Opt{Dir: sb.Root, Timeout: 30 * time.Second}, "-d", allRoot, "-o", "github", "regex", "format", "--check", "--all")
		if (rg.Exit != 0) != (content != f1) || (content != f1) != strings.Contains(rg.Stdout, "::error::") {
			out.Detail["check_all_github_exit"], out.Detail["check_all_github_stdout"] = rg.Exit, rg.Stdout
			out.Violation = "format --check --all in GitHub mode does not report exactly the unformatted state"
			return out
		}
	}
	needsWork := content != f1
	out.NonTrivial = c.Kind == "boundary" || (needsWork && (c.Kind == "raw" || len(c.Lines) > 1))
	out.Key = content
	out.Sample = map[string]any{"kind": c.Kind, "content": clip(content, 300), "formatted": clip(f1, 300), "check_before": chk0.Exit, "check_after": chk1.Exit}
	return out
}

func TestC09(t *testing.T) { RunProp(t, "C09", genC09, checkC09) }
