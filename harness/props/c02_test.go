package props

import (
	"fmt"
	"regexp/syntax"
	"strings"
	"testing"
	"time"

	"pgregory.net/rapid"

	"verifharness/cli"
	"verifharness/ragen"
)

// C02 — the output can be pasted between the quotes of a SecRule line.

type C02Case struct {
	Prog *ragen.Program `json:"prog"`
	Lab  []string       `json:"labels,omitempty"`
	// Global: extra global arguments (log level, output format): stdout is the data channel whatever they are
	Global []string `json:"global,omitempty"`
	// OddFlag: a second observation with this flags line in front of the program — an upper-case spelling the
	// tool refuses; should it ever compile, the leading group must still consist of the letters i and s only
	OddFlag string `json:"odd_flag,omitempty"`
}

var c02Globals = [][]string{nil, nil, nil, nil, {"-l", "debug"}, {"-l", "trace"}, {"-l", "warn"}, {"--log-level", "info"}, {"-o", "github"}, {"-l", "trace", "-o", "github"}, {"-l", "error"}}

func c02Opt() ragen.GenOpt {
	o := ragen.GenOpt{
		Rx:           ragen.RxOpt{Stress: 50, MaxDepth: 2, InlineFlags: true},
		MaxDepth:     2,
		MaxItems:     6,
		Flags:        true,
		PrefixSuffix: true,
		Defs:         true,
		DefsInPS:     true,
		Includes:     true,
		IncludePS:    true,
		Cmdline:      true,
		StoreLoad:    true,
	}
	if thorough() {
		o.MaxDepth, o.MaxItems = 3, 9
	}
	if openFinding("D4") {
		o.Rx.NoQuoteAfterBackslash = true
	}
	return o
}

func genC02(t *rapid.T) C02Case {
	g := ragen.GenProgram(t, c02Opt())
	c := C02Case{Prog: g.Prog, Lab: labelsOf(g.Labels)}
	c.Global = rapid.SampledFrom(c02Globals).Draw(t, "global")
	if rapid.IntRange(0, 5).Draw(t, "dangling") == 0 {
		// a reference to a name nobody defines stays literal text (and makes the parser log a warning)
		c.Prog.Main = append(c.Prog.Main, ragen.Line{K: ragen.KEntry, T: "q{{nodef}}"})
		c.Lab = append(c.Lab, "dangling-reference")
	}
	if len(c.Global) > 0 {
		c.Lab = append(c.Lab, "global:"+strings.Join(c.Global, " "))
	}
	c.OddFlag = rapid.SampledFrom([]string{"", "", "", "", "", "", "I", "S", "iS", "sI"}).Draw(t, "oddflag")
	if c.OddFlag != "" {
		c.Lab = append(c.Lab, "upper-case-flag-line-probed")
	}
	return c
}

// pasteProblems returns the violated C02 predicates for the generated text o.
func pasteProblems(o string, wantFlags string) []string {
	var bad []string
	for i := 0; i < len(o); i++ {
		if o[i] < 0x20 || o[i] > 0x7e {
			bad = append(bad, fmt.Sprintf("byte 0x%02x at offset %d is not printable ASCII", o[i], i))
			break
		}
	}
	rest := o
	gotFlags := ""
	if strings.HasPrefix(o, "(?") {
		if j := strings.IndexByte(o, ')'); j > 0 {
			f := o[2:j]
			if f != "" && strings.Trim(f, "imsU-") == "" {
				gotFlags, rest = f, o[j+1:]
			}
		}
	}
	if gotFlags != wantFlags {
		bad = append(bad, fmt.Sprintf("leading flag group is %q, the file's flags are %q (sorted)", gotFlags, wantFlags))
	}
	// scan rest: escapes and classes understood
	inClass := false
	for i := 0; i < len(rest); i++ {
		c := rest[i]
		if c == '\\' {
			if inClass && strings.HasPrefix(rest[i:], `\t\n\f\r `) {
				bad = append(bad, "expanded white-space class `\\t\\n\\f\\r ` left inside a character class")
			}
			if i+1 < len(rest) && rest[i+1] == '\\' {
				bad = append(bad, fmt.Sprintf("literal backslash written as `\\\\` at offset %d", i))
			}
			if i+1 < len(rest) && rest[i+1] == 's' {
				if !strings.HasPrefix(rest[i+2:], `\x0b`) {
					bad = append(bad, fmt.Sprintf("`\\s` at offset %d is not followed by `\\x0b`", i))
				}
			}
			i++
			continue
		}
		if c == '"' {
			bad = append(bad, fmt.Sprintf("unescaped double quote at offset %d", i))
		}
		if inClass {
			if c == ']' {
				inClass = false
			}
			continue
		}
		switch c {
		case '[':
			inClass = true
			if i+1 < len(rest) && rest[i+1] == '^' {
				i++
			}
			if i+1 < len(rest) && rest[i+1] == ']' {
				i++
			}
		case '(':
			if i+1 < len(rest) && rest[i+1] == '?' {
				j := i + 2
				for j < len(rest) && strings.IndexByte("imsU-", rest[j]) >= 0 {
					j++
				}
				if j > i+2 && j < len(rest) && (rest[j] == ':' || rest[j] == ')') {
					bad = append(bad, fmt.Sprintf("inline flag group %q at offset %d", rest[i:j+1], i))
				}
			}
		}
	}
	if _, err := syntax.Parse(o, syntax.Perl); err != nil {
		bad = append(bad, "not an RE2 expression: "+err.Error())
	}
	// the operand tokenizer view: SecRule ARGS "@rx O" \  -- the first unescaped quote after `@rx ` must be the closing one
	line := `SecRule ARGS "@rx ` + o + `" \`
	start := strings.Index(line, `"@rx `) + 5
	end := -1
	for i := start; i < len(line); i++ {
		if line[i] == '\\' {
			i++
			continue
		}
		if line[i] == '"' {
			end = i
			break
		}
	}
	if end != len(line)-3 {
		bad = append(bad, "operand ends early when embedded after \"@rx ")
	}
	return bad
}

func checkC02(c C02Case) Outcome {
	out := Outcome{Labels: c.Lab, Detail: map[string]any{}}
	src := c.Prog.Canon()
	if c.Prog.Config != nil {
		src = strings.TrimSuffix(src, "\x00cfg\x00"+*c.Prog.Config)
	}
	res, err := c.Prog.Resolve(c.Prog.Main, ragen.ResolveOpt{ExpandInPrefixSuffix: true}, nil, 0)
	if err != nil {
		out.HarnessError = "generated program does not resolve: " + err.Error()
		return out
	}
	if c.OddFlag != "" {
		p2 := *c.Prog
		p2.Main = append([]ragen.Line{{K: ragen.KFlags, T: c.OddFlag}}, c.Prog.Main...)
		if r2 := generateWith(&p2, c.Global...); r2.Exit == 0 && strings.HasPrefix(r2.Stdout, "(?") {
			if j := strings.IndexByte(r2.Stdout, ')'); j > 0 && strings.ContainsAny(r2.Stdout[2:j], "IS") && strings.Trim(r2.Stdout[2:j], "abcdefghijklmnopqrstuvwxyzABCDEFGHIJKLMNOPQRSTUVWXYZ-") == "" {
				out.Detail["program"], out.Detail["stdout"] = p2.MainText(), r2.Stdout
				out.Violation = fmt.Sprintf("leading flag group %q has letters outside {i,s} (flags line `##!+ %s`)", r2.Stdout[:j+1], c.OddFlag)
				return out
			}
		}
	}
	r := generateWith(c.Prog, c.Global...)
	out.Detail["program"] = c.Prog.MainText()
	out.Detail["global"] = c.Global
	out.Detail["stdout"] = r.Stdout
	out.Detail["exit"] = r.Exit
	if r.Exit != 0 {
		// C02 quantifies over compiling programs only
		out.Labels = append(out.Labels, "does-not-compile")
		return out
	}
	if r.Stdout == "" {
		out.Labels = append(out.Labels, "empty-output")
		return out
	}
	want := strings.TrimSuffix(strings.TrimPrefix(ragen.FlagPrefix(res.Flags), "(?"), ")")
	if bad := pasteProblems(r.Stdout, want); len(bad) > 0 {
		if openFinding("D4") && onlyD4(r.Stdout, bad) {
			out.ExcludedBy = "D4"
			return out
		}
		out.Detail["problems"] = bad
		out.Violation = bad[0]
		return out
	}
	// the second observation point: the operand that `regex update` writes into the rules file
	if prob := updateOperandProblem(c.Prog, r.Stdout); prob != "" {
		out.Detail["update_problem"] = prob
		out.Violation = prob
		return out
	}
	stress := false
	for _, m := range []struct{ label, needle string }{{"src-quote", `"`}, {"src-backslash", `\\`}, {"src-x5c", `\x5c`}, {"src-ws-class", `\s`}, {"src-caret", "^"}, {"src-dollar", "$"}, {"src-dot", "."}, {"src-vt", `\x0b`}, {"src-quote-after-backslash", `\\"`}} {
		if strings.Contains(src, m.needle) {
			out.Labels = append(out.Labels, m.label)
			stress = true
		}
	}
	for _, r := range src {
		if r > 0x7e || (r < 0x20 && r != '\n' && r != 0) {
			out.Labels = append(out.Labels, "src-raw-control-or-nonascii")
			stress = true
			break
		}
	}
	out.NonTrivial = stress
	out.Key = src
	out.Sample = map[string]any{"program": c.Prog.MainText(), "generated": clip(r.Stdout, 300)}
	return out
}

func TestC02(t *testing.T) { RunProp(t, "C02", genC02, checkC02) }

// onlyD4 reports whether the only problems are those of the open known finding D4: a quote that
// directly follows a literal backslash (printed as `\x5c`) stays unescaped, because the escape
// test looks at one preceding byte only. Every unescaped quote must be of that shape and nothing
// else may be wrong.
func onlyD4(o string, bad []string) bool {
	n := 0
	for i := 0; i < len(o); i++ {
		if o[i] == '\\' {
			i++
			continue
		}
		if o[i] == '"' {
			if i < 4 || o[i-4:i] != `\x5c` {
				return false
			}
			n++
		}
	}
	if n == 0 {
		return false
	}
	for _, b := range bad {
		if !strings.HasPrefix(b, "unescaped double quote") && !strings.HasPrefix(b, "operand ends early") {
			return false
		}
	}
	return true
}

// updateOperandProblem runs `regex update` for the program and checks what an operand tokenizer
// reads back from the rules file: exactly generate's output, terminated by the closing quote.
func updateOperandProblem(p *ragen.Program, generated string) string {
	sb := cli.NewSandbox("c02u")
	defer sb.Close()
	tree := cli.Tree(p.Tree())
	tree["regex-assembly/932100.ra"] = p.MainText()
	const head = `SecRule ARGS "@rx `
	tree["rules/REQUEST-932-X.conf"] = head + "old\" \\\n    \"id:932100,\\\n    phase:2\"\n"
	root := sb.Path("crs")
	if err := tree.Write(root); err != nil {
		panic(err)
	}
	r := cli.Run(cli.Opt{Dir: sb.Root, Timeout: 30 * time.Second}, "-d", root, "regex", "update", "932100")
	if r.Exit != 0 {
		return fmt.Sprintf("generate succeeds but update fails (exit %d)", r.Exit)
	}
	text := sb.Read("crs/rules/REQUEST-932-X.conf")
	lines := strings.Split(text, "\n")
	if len(lines) != 4 || !strings.HasPrefix(lines[0], head) {
		return "update changed the line structure of the rules file"
	}
	line := lines[0]
	end := -1
	for i := len(head); i < len(line); i++ {
		if line[i] == '\\' {
			i++
			continue
		}
		if line[i] == '"' {
			end = i
			break
		}
	}
	if end < 0 {
		return "the operand written by update has no closing quote"
	}
	if got := line[len(head):end]; got != generated {
		return fmt.Sprintf("an operand tokenizer reads %q from the rule line, generate printed %q", clip(got, 120), clip(generated, 120))
	}
	if line[end:] != "\" \\" {
		return "text follows the closing quote of the operand"
	}
	// the operand is now what generate prints: compare must read exactly that back, and a second update
	// (whose "old" operand is the generated text with all its escaped quotes) must leave the file alone
	cmp := cli.Run(cli.Opt{Dir: sb.Root, Timeout: 30 * time.Second}, "-d", root, "regex", "compare", "932100")
	if cmp.Exit != 0 || !strings.Contains(cmp.Stdout, "has not changed") {
		return fmt.Sprintf("compare right after update reads another operand back than update wrote (exit %d)", cmp.Exit)
	}
	r2 := cli.Run(cli.Opt{Dir: sb.Root, Timeout: 30 * time.Second}, "-d", root, "regex", "update", "932100")
	if again := sb.Read("crs/rules/REQUEST-932-X.conf"); r2.Exit != 0 || again != text {
		return "a second update rewrites the rule line differently (the operand written first is not read back as one operand)"
	}
	return ""
}
