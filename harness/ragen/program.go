// Package ragen holds the regex-assembly program model: a flat line representation, a printer,
// a resolver that "types included lines in place", and the plain-reading reference evaluator.
package ragen

import (
	"fmt"
	"sort"
	"strings"
)

// Line kinds.
const (
	KEntry   = "entry"
	KBlank   = "blank"
	KComment = "comment"
	KConcat  = "concat" // ##!=>
	KStore   = "store"  // ##!=< name
	KLoad    = "load"   // ##!=> name
	KAStart  = "astart" // ##!> assemble
	KCStart  = "cstart" // ##!> cmdline unix|windows
	KEnd     = "end"    // ##!<
	KInclude = "include"
	KExcept  = "except"
	KDefine  = "define"
	KFlags   = "flags"
	KPrefix  = "prefix"
	KSuffix  = "suffix"
	KRaw     = "raw" // printed verbatim; opaque to the model
)

// Line is one line of an assembly file.
type Line struct {
	K     string   `json:"k"`
	T     string   `json:"t,omitempty"`     // entry text, comment text, definition value, flags, prefix/suffix text, raw text
	Name  string   `json:"name,omitempty"`  // stored-expression or definition name
	Cmd   string   `json:"cmd,omitempty"`   // unix | windows
	File  string   `json:"file,omitempty"`  // include file as spelled
	Excl  []string `json:"excl,omitempty"`  // exclude files
	Pairs []string `json:"pairs,omitempty"` // suffix replacement pairs, flat
	Ind   string   `json:"ind,omitempty"`   // leading white space (layout noise)
	Sp    int      `json:"sp,omitempty"`    // directive spacing variant (layout noise)
	Trail string   `json:"trail,omitempty"` // trailing white space (layout noise; never on entries)
}

func sp(n int, def string) string {
	switch n {
	case 1:
		return ""
	case 2:
		return "  "
	case 3:
		return "\t"
	}
	return def
}

// Body is the line without indentation, as the parser hands it on.
func (l Line) Body() string {
	switch l.K {
	case KEntry, KRaw:
		return l.T
	case KBlank:
		return ""
	case KComment:
		return "##!" + l.T
	case KConcat:
		return "##!=>"
	case KStore:
		return "##!=<" + sp(l.Sp, " ") + l.Name
	case KLoad:
		return "##!=>" + sp(l.Sp, " ") + l.Name
	case KAStart:
		return "##!>" + sp(l.Sp, " ") + "assemble"
	case KCStart:
		return "##!>" + sp(l.Sp, " ") + "cmdline " + l.Cmd
	case KEnd:
		return "##!<"
	case KInclude:
		s := "##!>" + sp(l.Sp, " ") + "include " + l.File
		if len(l.Pairs) > 0 {
			s += " -- " + strings.Join(l.Pairs, " ")
		}
		return s
	case KExcept:
		s := "##!>" + sp(l.Sp, " ") + "include-except " + l.File
		if len(l.Excl) > 0 {
			s += " " + strings.Join(l.Excl, " ")
		}
		if len(l.Pairs) > 0 {
			s += " -- " + strings.Join(l.Pairs, " ")
		}
		return s
	case KDefine:
		return "##!>" + sp(l.Sp, " ") + "define " + l.Name + " " + l.T
	case KFlags:
		return "##!+" + sp(l.Sp, " ") + l.T
	case KPrefix:
		return "##!^" + sp(l.Sp, " ") + l.T
	case KSuffix:
		return "##!$" + sp(l.Sp, " ") + l.T
	}
	panic("unknown line kind " + l.K)
}

func (l Line) Text() string { return l.Ind + l.Body() + l.Trail }

// Print renders lines; eol is "\n" or "\r\n"; finalNL controls the newline after the last line.
func Print(lines []Line, eol string, finalNL bool) string {
	var sb strings.Builder
	for i, l := range lines {
		sb.WriteString(l.Text())
		if i < len(lines)-1 || finalNL {
			sb.WriteString(eol)
		}
	}
	return sb.String()
}

// Program is a main assembly file plus the files it can reach.
type Program struct {
	Main  []Line            `json:"main"`
	Files map[string][]Line `json:"files,omitempty"` // "include/x.ra" | "exclude/y.ra" -> lines
	// toolchain.yaml: nil = absent
	Config *string `json:"config,omitempty"`
	// ConfigIsDir: regex-assembly/toolchain.yaml is a directory (unreadable as a file)
	ConfigIsDir bool `json:"config_is_dir,omitempty"`
}

// Tree returns the files below the CRS root needed to run the program from stdin.
func (p *Program) Tree() map[string]string {
	t := map[string]string{"regex-assembly/": ""}
	for name, lines := range p.Files {
		t["regex-assembly/"+name] = Print(lines, "\n", true)
	}
	if p.ConfigIsDir {
		t["regex-assembly/toolchain.yaml/"] = ""
	} else if p.Config != nil {
		t["regex-assembly/toolchain.yaml"] = *p.Config
	}
	return t
}

func (p *Program) MainText() string { return Print(p.Main, "\n", true) }

// Canon is the canonical text of the whole case (distinctness key).
func (p *Program) Canon() string {
	var sb strings.Builder
	sb.WriteString(p.MainText())
	names := make([]string, 0, len(p.Files))
	for n := range p.Files {
		names = append(names, n)
	}
	sort.Strings(names)
	for _, n := range names {
		sb.WriteString("\x00" + n + "\x00")
		sb.WriteString(Print(p.Files[n], "\n", true))
	}
	if p.Config != nil {
		sb.WriteString("\x00cfg\x00" + *p.Config)
	}
	return sb.String()
}

// Resolved is a file after includes were typed in place and definitions expanded.
type Resolved struct {
	Flags    map[rune]bool
	Prefixes []string
	Suffixes []string
	Body     []Line // entry / concat / store / load / astart / cstart / end only
	Defs     map[string]string
}

type ResolveOpt struct {
	// ExpandInPrefixSuffix: definitions are also substituted in prefix/suffix lines of the file
	// that declares them (what C07 states; the tool historically did not).
	ExpandInPrefixSuffix bool
	// PairMode selects how several suffix-replacement pairs interact: "first" = first pair in
	// written order whose key matches; "seq" = every pair in written order, sequentially.
	PairMode string
}

func (p *Program) lookup(name string) ([]Line, bool) {
	if !strings.HasSuffix(name, ".ra") {
		name += ".ra"
	}
	if l, ok := p.Files["include/"+name]; ok {
		return l, true
	}
	l, ok := p.Files["exclude/"+name]
	return l, ok
}

// expandAll substitutes definitions until fixpoint (acyclic by construction; bounded anyway).
func expandAll(s string, defs map[string]string) string {
	if !strings.Contains(s, "{{") {
		return s
	}
	for i := 0; i < 32; i++ {
		changed := false
		for _, n := range sortedKeys(defs) {
			needle := "{{" + n + "}}"
			if strings.Contains(s, needle) {
				s = strings.ReplaceAll(s, needle, defs[n])
				changed = true
			}
		}
		if !changed {
			break
		}
	}
	return s
}

func sortedKeys(m map[string]string) []string {
	ks := make([]string, 0, len(m))
	for k := range m {
		ks = append(ks, k)
	}
	sort.Strings(ks)
	return ks
}

// Resolve types included lines in place (recursively), applies exclusion and suffix rewriting,
// and expands the file's definitions over the resulting text.
func (p *Program) Resolve(lines []Line, opt ResolveOpt, inherited map[string]string, depth int) (*Resolved, error) {
	if depth > 40 {
		return nil, fmt.Errorf("include depth")
	}
	r := &Resolved{Flags: map[rune]bool{}, Defs: map[string]string{}}
	for k, v := range inherited {
		r.Defs[k] = v
	}
	// a name defined in the file itself means what the file says (its first definition); the table handed
	// down (the include file's, for exclude files) only supplies the names the file does not define
	own := map[string]bool{}
	for _, l := range lines {
		switch l.K {
		case KBlank, KComment:
		case KDefine:
			if !own[l.Name] {
				r.Defs[l.Name] = l.T
				own[l.Name] = true
			}
		case KFlags:
			for _, f := range l.T {
				r.Flags[f] = true
			}
		case KPrefix:
			r.Prefixes = append(r.Prefixes, l.T)
		case KSuffix:
			r.Suffixes = append(r.Suffixes, l.T)
		case KInclude:
			sub, _, err := p.resolveFile(l.File, opt, nil, depth+1)
			if err != nil {
				return nil, err
			}
			r.Body = append(r.Body, rewriteSuffixes(sub, l.Pairs, opt.PairMode)...)
		case KExcept:
			sub, defs, err := p.resolveFile(l.File, opt, nil, depth+1)
			if err != nil {
				return nil, err
			}
			excluded := map[string]bool{}
			for _, x := range l.Excl {
				xs, _, err := p.resolveFile(x, opt, defs, depth+1)
				if err != nil {
					return nil, err
				}
				for _, xl := range xs {
					excluded[xl.Body()] = true
				}
			}
			// exactly the entries of F that occur in no exclude file, in F's order; directive lines (the
			// block that binds F's own prefixes / suffixes, nested blocks, markers) are not entries: they
			// are neither excluded nor merged when they occur more than once
			var kept []Line
			for _, sl := range sub {
				if sl.K == KEntry && excluded[sl.Body()] {
					continue
				}
				kept = append(kept, sl)
			}
			r.Body = append(r.Body, rewriteSuffixes(kept, l.Pairs, opt.PairMode)...)
		default:
			l.Ind, l.Trail = "", ""
			r.Body = append(r.Body, l)
		}
	}
	// definitions: nested first, then over the text
	for _, n := range sortedKeys(r.Defs) {
		r.Defs[n] = expandAll(r.Defs[n], r.Defs)
	}
	for i := range r.Body {
		if r.Body[i].K == KEntry {
			r.Body[i].T = expandAll(r.Body[i].T, r.Defs)
		}
	}
	if opt.ExpandInPrefixSuffix {
		for i := range r.Prefixes {
			r.Prefixes[i] = expandAll(r.Prefixes[i], r.Defs)
		}
		for i := range r.Suffixes {
			r.Suffixes[i] = expandAll(r.Suffixes[i], r.Defs)
		}
	}
	return r, nil
}

// resolveFile resolves an include file and binds its own prefixes/suffixes to its entries as a
// local assemble block, exactly like typing that block in place.
func (p *Program) resolveFile(name string, opt ResolveOpt, inherited map[string]string, depth int) ([]Line, map[string]string, error) {
	lines, ok := p.lookup(name)
	if !ok {
		return nil, nil, fmt.Errorf("include file %q not found", name)
	}
	r, err := p.Resolve(lines, opt, inherited, depth)
	if err != nil {
		return nil, nil, err
	}
	if len(r.Flags) > 0 {
		return nil, nil, fmt.Errorf("include file %q has flags", name)
	}
	if len(r.Prefixes) == 0 && len(r.Suffixes) == 0 {
		return r.Body, r.Defs, nil
	}
	out := []Line{{K: KAStart}}
	for _, px := range r.Prefixes {
		out = append(out, Line{K: KEntry, T: px}, Line{K: KConcat})
	}
	out = append(out, r.Body...)
	if len(r.Suffixes) > 0 {
		out = append(out, Line{K: KConcat})
	}
	for _, sx := range r.Suffixes {
		out = append(out, Line{K: KEntry, T: sx}, Line{K: KConcat})
	}
	out = append(out, Line{K: KEnd})
	return out, r.Defs, nil
}

func rewriteSuffixes(lines []Line, pairs []string, mode string) []Line {
	if len(pairs) == 0 {
		return lines
	}
	out := make([]Line, len(lines))
	copy(out, lines)
	for i := range out {
		if out[i].K != KEntry || strings.TrimSpace(out[i].T) == "" || strings.HasPrefix(out[i].T, "##!") {
			continue
		}
		for j := 0; j+1 < len(pairs); j += 2 {
			old, nw := pairs[j], pairs[j+1]
			if rest, ok := strings.CutSuffix(out[i].T, old); ok {
				if nw == `""` {
					nw = ""
				}
				out[i].T = rest + nw
				if mode != "seq" {
					break
				}
			}
		}
		if out[i].T == "" {
			// an entry whose whole text was deleted is still an entry: the empty expression
			out[i].T = "(?:)"
		}
	}
	return out
}

// PairsInteract reports whether the result of suffix rewriting depends on the order in which
// the pairs are tried for at least one of the entries.
func PairsInteract(lines []Line, pairs []string) bool {
	if len(pairs) <= 2 {
		return false
	}
	n := len(pairs) / 2
	perm := make([]int, n)
	for i := range perm {
		perm[i] = i
	}
	base := ""
	first := true
	differs := false
	var rec func(k int)
	rec = func(k int) {
		if differs {
			return
		}
		if k == n {
			pp := make([]string, 0, len(pairs))
			for _, i := range perm {
				pp = append(pp, pairs[2*i], pairs[2*i+1])
			}
			var sb strings.Builder
			for _, l := range rewriteSuffixes(lines, pp, "seq") {
				sb.WriteString(l.T + "\n")
			}
			if first {
				base, first = sb.String(), false
			} else if sb.String() != base {
				differs = true
			}
			return
		}
		for i := k; i < n; i++ {
			perm[k], perm[i] = perm[i], perm[k]
			rec(k + 1)
			perm[k], perm[i] = perm[i], perm[k]
		}
	}
	rec(0)
	return differs
}

// Inlined returns the program with every include typed in place and every definition expanded
// by hand: a single file without include, include-except or define lines.
func (p *Program) Inlined(opt ResolveOpt) (*Program, error) {
	r, err := p.Resolve(p.Main, opt, nil, 0)
	if err != nil {
		return nil, err
	}
	var main []Line
	for _, l := range p.Main {
		if l.K == KFlags {
			l.Ind, l.Trail = "", ""
			main = append(main, l)
		}
	}
	for _, px := range r.Prefixes {
		main = append(main, Line{K: KPrefix, T: px})
	}
	for _, sx := range r.Suffixes {
		main = append(main, Line{K: KSuffix, T: sx})
	}
	main = append(main, r.Body...)
	return &Program{Main: main, Files: map[string][]Line{}, Config: p.Config, ConfigIsDir: p.ConfigIsDir}, nil
}

// Lookup finds the lines of an include file the way the tool searches for it (include/ before exclude/, with or
// without the .ra extension).
func (p *Program) Lookup(name string) ([]Line, bool) { return p.lookup(name) }
