package ragen

import (
	"fmt"
	"strings"

	"pgregory.net/rapid"
)

// GenOpt steers the program generator. Everything is constructed, never filtered.
type GenOpt struct {
	Rx           RxOpt
	MaxDepth     int // nesting depth of blocks (0 = flat)
	MaxItems     int // items per body
	Flags        bool
	PrefixSuffix bool
	Defs         bool
	DefsInPS     bool // references to definitions inside prefix/suffix lines
	Includes     bool
	Excepts      bool
	Pairs        bool // suffix replacement pairs on include lines
	IncludePS    bool // include files with their own prefix/suffix
	IncludeDefs  bool // include files with their own definitions
	Cmdline      bool
	// IncludeInCmdline: cmdline blocks may include word-list files
	IncludeInCmdline bool
	// CmdLiteral: cmdline blocks may contain `'literal` lines
	CmdLiteral bool
	StoreLoad  bool
	Noise      bool // indentation, spacing variants, comments, blank lines
	// NestInCmdline: cmdline blocks may contain nested assemble blocks (single units among the words)
	NestInCmdline bool
	// TrailWS: some entries (outside cmdline blocks) end in blanks or tabs; only indentation is
	// insignificant, so the trailing white space is part of the expression.
	TrailWS bool
	// NoLoneAlt: never let a single line with a top-level alternation stand alone before a
	// marker (open known finding D6 class).
	NoLoneAlt bool
	// ConfigGen draws the toolchain.yaml; nil = a fixed CRS-like configuration.
	ConfigGen func(t *rapid.T) (*string, Config)
}

// Gen is the result of generation: the program plus facts the checks use as labels.
type Gen struct {
	Prog   *Program
	Cfg    Config
	Labels map[string]bool
}

type genState struct {
	t       *rapid.T
	o       GenOpt
	g       *Gen
	rx      RxOpt
	defs    []string          // definition names
	defVal  map[string]string // expanded values
	stored  []string          // names stored so far (program order)
	files   []string          // include files (word lists), spelled without directory
	filePS  map[string]bool
	nstore  int
	entries int
}

const CRSLikeConfig = `patterns:
  anti_evasion:
    unix: |
      [\x5c'\"\[]*(?:\$[a-z0-9_@?!#{(*-]*)?(?:\x5c)?
    windows: |
      [\"\^]*
  anti_evasion_suffix:
    unix: |
      (?:\s|<|>).*
    windows: |
      [\s,;]
  anti_evasion_no_space_suffix:
    unix: |
      (?:<|>).*
    windows: |
      [,;]
`

func CRSLike() (*string, Config) {
	s := CRSLikeConfig
	return &s, Config{
		Unix:    CmdPatterns{Evasion: `[\x5c'\"\[]*(?:\$[a-z0-9_@?!#{(*-]*)?(?:\x5c)?`, Suffix: `(?:\s|<|>).*`, NoSpaceSuffix: `(?:<|>).*`},
		Windows: CmdPatterns{Evasion: `[\"\^]*`, Suffix: `[\s,;]`, NoSpaceSuffix: `[,;]`},
	}
}

func (s *genState) label(l string) { s.g.Labels[l] = true }

func (s *genState) ind(depth int) (string, int, string) {
	if !s.o.Noise {
		return strings.Repeat("  ", depth), 0, ""
	}
	ind := rapid.SampledFrom([]string{"", "", "  ", "    ", "\t", " \t ", "      "}).Draw(s.t, "ind")
	spv := rapid.SampledFrom([]int{0, 0, 0, 1, 2, 3}).Draw(s.t, "sp")
	trail := rapid.SampledFrom([]string{"", "", "", " ", "\t", "  "}).Draw(s.t, "trail")
	return ind, spv, trail
}

// Program draws a whole program.
func GenProgram(t *rapid.T, o GenOpt) *Gen {
	s := &genState{t: t, o: o, g: &Gen{Prog: &Program{Files: map[string][]Line{}}, Labels: map[string]bool{}}, rx: o.Rx,
		defVal: map[string]string{}, filePS: map[string]bool{}}
	if o.ConfigGen != nil {
		s.g.Prog.Config, s.g.Cfg = o.ConfigGen(t)
	} else {
		s.g.Prog.Config, s.g.Cfg = CRSLike()
	}
	var head []Line
	// flags
	if o.Flags {
		switch (rapid.IntRange(0, 11).Draw(t, "flags") * 5) % 12 {
		case 0, 1:
			head = append(head, Line{K: KFlags, T: "i"})
		case 2:
			head = append(head, Line{K: KFlags, T: "s"})
		case 3:
			head = append(head, Line{K: KFlags, T: rapid.SampledFrom([]string{"is", "si"}).Draw(t, "fl2")})
		case 4:
			head = append(head, Line{K: KFlags, T: "s"}, Line{K: KFlags, T: "i"})
		}
		for _, l := range head {
			if strings.Contains(l.T, "i") {
				s.rx.Lower = true
				s.label("flag-i")
			}
			if strings.Contains(l.T, "s") {
				s.label("flag-s")
			}
		}
	}
	// definitions
	var defLines []Line
	if o.Defs && rapid.IntRange(0, 2).Draw(t, "defs?") == 0 {
		n := rapid.IntRange(1, 6).Draw(t, "ndefs")
		for i := 0; i < n; i++ {
			name := fmt.Sprintf("d%d", i)
			if rapid.IntRange(0, 4).Draw(t, "dname") == 0 {
				name = rapid.SampledFrom([]string{"a-b", "X_1", "n", "def", "-x", "sep-", "not--az", "--", "_", "0"}).Draw(t, "dn") + fmt.Sprint(i)
				if rapid.Bool().Draw(t, "dnsuffix") {
					name = strings.TrimSuffix(name, fmt.Sprint(i)) + fmt.Sprint(i) + rapid.SampledFrom([]string{"", "-", "--z"}).Draw(t, "dntail")
				}
			}
			val := s.defValue()
			if i > 0 && rapid.IntRange(0, 2).Draw(t, "nest?") != 2 {
				// mostly the previous definition: chains of depth 3 and more are common
				ref := s.defs[i-1]
				if rapid.IntRange(0, 3).Draw(t, "refprev") == 3 {
					ref = s.defs[rapid.IntRange(0, i-1).Draw(t, "ref")]
				}
				val = val + "{{" + ref + "}}"
				if rapid.Bool().Draw(t, "after") {
					val += s.defValue()
				}
				s.label("def-nested")
			}
			exp := expandAll(val, s.defVal)
			if !ValidEntry(exp) || strings.ContainsAny(val, " \t") {
				val, exp = "x", "x"
			}
			s.defs = append(s.defs, name)
			s.defVal[name] = exp
			defLines = append(defLines, Line{K: KDefine, Name: name, T: val})
		}
		s.label("defs")
	}
	// include files
	if o.Includes || o.Excepts {
		n := rapid.IntRange(0, 3).Draw(t, "nfiles")
		for i := 0; i < n; i++ {
			s.genFile(i)
		}
	}
	// prefix / suffix
	if o.PrefixSuffix {
		if rapid.IntRange(0, 3).Draw(t, "prefix?") == 0 {
			head = append(head, Line{K: KPrefix, T: s.unitRx()})
			s.label("prefix")
			if rapid.IntRange(0, 3).Draw(t, "prefix2?") == 0 {
				head = append(head, Line{K: KPrefix, T: s.unitRx()})
			}
		}
		if rapid.IntRange(0, 3).Draw(t, "suffix?") == 0 {
			head = append(head, Line{K: KSuffix, T: s.unitRx()})
			s.label("suffix")
		}
	}
	body := s.body(0, false)
	// definitions may stand before or after their uses
	var main []Line
	if len(defLines) > 0 && rapid.Bool().Draw(t, "defsAfter") {
		main = append(append(append(main, head...), body...), defLines...)
		s.label("defs-after-use")
	} else {
		main = append(append(append(main, head...), defLines...), body...)
	}
	s.g.Prog.Main = main
	return s.g
}

func (s *genState) defValue() string {
	o := s.rx
	o.NoTopAlt = true
	o.NoAnchors = true
	o.MaxDepth = 1
	for try := 0; try < 3; try++ {
		v := rxConcat(s.t, o, 1)
		if !strings.ContainsAny(v, " \t") && ValidEntry(v) {
			return v
		}
	}
	return "v"
}

// unitRx draws an atom or a group: a fragment that concatenates safely (no top-level |).
func (s *genState) unitRx() string {
	o := s.rx
	o.NoTopAlt = true
	o.MaxDepth = 2
	var v string
	for try := 0; try < 3; try++ {
		v = rxConcat(s.t, o, 2)
		if ValidEntry(v) {
			break
		}
		v = "p"
	}
	if s.o.DefsInPS && len(s.defs) > 0 && rapid.IntRange(0, 1).Draw(s.t, "psref") == 0 {
		d := rapid.SampledFrom(s.defs).Draw(s.t, "psd")
		if ValidEntry(v + s.defVal[d]) {
			v += "{{" + d + "}}"
			s.label("def-ref-in-prefix-suffix")
		}
	}
	return v
}

// entry draws one entry line, possibly with definition references.
func (s *genState) entry(noTopAlt bool) string {
	o := s.rx
	o.NoTopAlt = o.NoTopAlt || noTopAlt
	e := Rx(s.t, o)
	if len(s.defs) > 0 && rapid.IntRange(0, 2).Draw(s.t, "useDef") == 0 {
		d := rapid.SampledFrom(s.defs).Draw(s.t, "d")
		var cand string
		switch rapid.IntRange(0, 2).Draw(s.t, "dpos") {
		case 0:
			cand = "{{" + d + "}}" + e
		case 1:
			cand = e + "{{" + d + "}}"
		default:
			cand = "{{" + d + "}}"
		}
		if ValidEntry(expandAll(cand, s.defVal)) && !strings.HasPrefix(expandAll(cand, s.defVal), "##!") {
			s.label("def-ref")
			s.entries++
			return cand
		}
	}
	s.entries++
	return e
}

// trail appends significant trailing white space to an entry now and then.
func (s *genState) trail(e string) string {
	if !s.o.TrailWS || rapid.IntRange(0, 5).Draw(s.t, "trail") != 0 {
		return e
	}
	c := e + rapid.SampledFrom([]string{" ", "\t", "  ", " \t"}).Draw(s.t, "trailws")
	if !ValidEntryWS(expandAll(c, s.defVal)) {
		return e
	}
	s.label("entry-with-trailing-blank")
	return c
}

func (s *genState) genFile(i int) {
	t := s.t
	name := fmt.Sprintf("f%d", i)
	if rapid.IntRange(0, 3).Draw(t, "dotted") == 0 {
		// a dot inside the base name: the .ra extension is still optional
		name = fmt.Sprintf("f%d.v2", i)
		s.label("include-name-with-dot")
	}
	var lines []Line
	hasPS := false
	if s.o.IncludePS && rapid.IntRange(0, 3).Draw(t, "fps") == 0 {
		hasPS = true
		if rapid.Bool().Draw(t, "fprefix") {
			lines = append(lines, Line{K: KPrefix, T: s.unitRxNoDef()})
		}
		if rapid.Bool().Draw(t, "fsuffix") || len(lines) == 0 {
			lines = append(lines, Line{K: KSuffix, T: s.unitRxNoDef()})
		}
		s.label("include-with-prefix-suffix")
	}
	localDefs := map[string]string{}
	var localNames []string
	if s.o.IncludeDefs && rapid.IntRange(0, 3).Draw(t, "fdefs") == 0 {
		nm := fmt.Sprintf("l%d", i)
		v := s.defValue()
		lines = append(lines, Line{K: KDefine, Name: nm, T: v})
		localDefs[nm] = v
		localNames = append(localNames, nm)
		s.label("include-with-definitions")
	}
	n := rapid.IntRange(1, 6).Draw(t, "fentries")
	for j := 0; j < n; j++ {
		switch rapid.IntRange(0, 11).Draw(t, "fk") {
		case 0:
			lines = append(lines, Line{K: KComment, T: " " + rapid.SampledFrom([]string{"a comment", "word list", "x|y"}).Draw(t, "fc")})
		case 1:
			lines = append(lines, Line{K: KBlank})
		case 2:
			if i > 0 && s.o.Includes && !hasPS {
				sub := rapid.IntRange(0, i-1).Draw(t, "sub")
				lines = append(lines, Line{K: KInclude, File: s.files[sub]})
				s.label("nested-include")
				continue
			}
			fallthrough
		default:
			o := s.rx
			o.NoTopAlt = true
			e := Rx(t, o)
			if len(localNames) > 0 && rapid.IntRange(0, 1).Draw(t, "luse") == 0 {
				c := e + "{{" + localNames[0] + "}}"
				if ValidEntry(expandAll(c, localDefs)) {
					e = c
				}
			}
			if c := s.trail(e); c == e || ValidEntryWS(expandAll(c, localDefs)) {
				e = c
			}
			ind := ""
			if s.o.Noise && rapid.IntRange(0, 3).Draw(t, "find") == 0 {
				ind = "  "
			}
			lines = append(lines, Line{K: KEntry, T: e, Ind: ind})
		}
	}
	dir := "include/"
	if rapid.IntRange(0, 4).Draw(t, "fdir") == 0 {
		dir = "exclude/"
		s.label("include-from-exclude-dir")
	}
	s.g.Prog.Files[dir+name+".ra"] = lines
	s.files = append(s.files, name)
	s.filePS[name] = hasPS
}

func (s *genState) unitRxNoDef() string {
	save := s.defs
	s.defs = nil
	v := s.unitRx()
	s.defs = save
	return v
}

func (s *genState) spellFile(name string) string {
	if rapid.IntRange(0, 2).Draw(s.t, "ext") == 0 {
		return name + ".ra"
	}
	return name
}

func (s *genState) pairs(file string) []string {
	if !s.o.Pairs || rapid.IntRange(0, 2).Draw(s.t, "pairs?") != 0 {
		return nil
	}
	// keys are taken from the endings of the file's own entries so that rewriting really happens
	var endings []string
	for _, dir := range []string{"include/", "exclude/"} {
		for _, l := range s.g.Prog.Files[dir+file+".ra"] {
			if l.K == KEntry && len(l.T) > 0 && !strings.ContainsAny(l.T[len(l.T)-1:], " \t") {
				endings = append(endings, l.T[len(l.T)-1:])
				if len(l.T) > 1 && !strings.ContainsAny(l.T[len(l.T)-2:], " \t") {
					endings = append(endings, l.T[len(l.T)-2:])
				}
			}
		}
	}
	endings = append(endings, "a", "o", "e", "@", "~")
	n := rapid.IntRange(1, 3).Draw(s.t, "npairs")
	var ps []string
	used := map[string]bool{}
	for i := 0; i < n; i++ {
		old := rapid.SampledFrom(endings).Draw(s.t, "old")
		if used[old] {
			continue
		}
		used[old] = true
		var nw string
		switch k := rapid.IntRange(0, 5).Draw(s.t, "newk"); {
		case k == 0:
			nw = `""`
		case k <= 2 && len(ps) > 0:
			// replacement that ends in another pair's key: the pairs interact
			nw = "w" + ps[2*rapid.IntRange(0, len(ps)/2-1).Draw(s.t, "other")]
			s.label("interacting-pairs")
		case k == 3:
			nw = rapid.SampledFrom(endings).Draw(s.t, "newend")
		default:
			nw = rapid.SampledFrom([]string{"z", "yy", "x1", "q"}).Draw(s.t, "new")
		}
		if strings.ContainsAny(nw, " \t") || nw == "" {
			nw = "z"
		}
		if nw == `""` {
			// deleting the whole text of an entry has no "typed in place" counterpart: keep one character
			for _, dir := range []string{"include/", "exclude/"} {
				for _, l := range s.g.Prog.Files[dir+file+".ra"] {
					if l.K == KEntry && l.T == old {
						nw = "z"
					}
				}
			}
		}
		ps = append(ps, old, nw)
	}
	s.label("suffix-pairs")
	return ps
}

// body draws the lines of one block body (without start/end lines).
func (s *genState) body(depth int, inCmd bool) []Line {
	t := s.t
	var out []Line
	n := rapid.IntRange(1, s.o.MaxItems).Draw(t, "items")
	sinceFlush := 0 // lines that joined the pending alternation since the last marker
	loneAltPending := false
	add := func(l Line) {
		l.Ind, l.Sp, l.Trail = s.ind(depth)
		if l.K == KEntry || l.K == KStore || l.K == KLoad {
			// trailing blanks are part of an entry and of a stored-expression name
			l.Trail = ""
		}
		out = append(out, l)
	}
	for i := 0; i < n; i++ {
		// rapid favours small integers: scramble so that every item kind gets its share
		k := (rapid.IntRange(0, 99).Draw(t, "item") * 37) % 100
		switch {
		case k < 5 && s.rx.Words > 0:
			// a cluster of literal entries that share a tail (factored at the front of the alternation)
			// and a stem (factored at its back): (?:s1|s2)T|S(?:t1|t2)
			stems := rapid.Permutation([]string{"some", "another", "any", "no"}).Draw(t, "cstems")
			tails := rapid.Permutation([]string{" cat", " dog", " bird", "fish"}).Draw(t, "ctails")
			tail := rapid.SampledFrom([]string{" line", " thing", "x", "-end"}).Draw(t, "ctail")
			stem := rapid.SampledFrom([]string{"big", "small ", "z", "pre-"}).Draw(t, "cstem")
			for _, e := range []string{stems[0] + tail, stems[1] + tail, stem + tails[0], stem + tails[1]} {
				add(Line{K: KEntry, T: e})
			}
			s.entries += 4
			sinceFlush += 4
			loneAltPending = false
			s.label("factoring-cluster")
		case k < 45:
			e := s.entry(false)
			if !inCmd {
				e = s.trail(e)
			}
			add(Line{K: KEntry, T: e})
			sinceFlush++
			loneAltPending = sinceFlush == 1 && topLevelAlt(e)
		case k < 49 && s.o.Noise:
			add(Line{K: KBlank})
		case k < 53 && s.o.Noise:
			add(Line{K: KComment, T: " " + rapid.SampledFrom([]string{"note", "a|b", "TODO: (x", "see above"}).Draw(t, "cmt")})
		case k < 63:
			if sinceFlush == 0 && rapid.Bool().Draw(t, "skipEmptyMarker") {
				continue
			}
			if s.o.NoLoneAlt && loneAltPending && sinceFlush == 1 {
				// make it two alternatives so that the literal-append path is not taken
				add(Line{K: KEntry, T: s.entry(true)})
			}
			add(Line{K: KConcat})
			s.label("concat-marker")
			sinceFlush, loneAltPending = 0, false
		case k < 68 && s.o.StoreLoad:
			if s.o.NoLoneAlt && loneAltPending && sinceFlush == 1 {
				add(Line{K: KEntry, T: s.entry(true)})
			}
			name := fmt.Sprintf("s%d", s.nstore%3)
			s.nstore++
			add(Line{K: KStore, Name: name})
			s.stored = append(s.stored, name)
			s.label("store")
			sinceFlush, loneAltPending = 0, false
		case k < 76 && s.o.StoreLoad && len(s.stored) > 0:
			if s.o.NoLoneAlt && loneAltPending && sinceFlush == 1 {
				add(Line{K: KEntry, T: s.entry(true)})
			}
			add(Line{K: KLoad, Name: rapid.SampledFrom(s.stored).Draw(t, "load")})
			s.label("load")
			sinceFlush, loneAltPending = 0, false
		case k < 85 && depth < s.o.MaxDepth:
			add(Line{K: KAStart})
			out = append(out, s.body(depth+1, false)...)
			add(Line{K: KEnd})
			s.label("nested-assemble")
			if depth+1 >= 2 {
				s.label("nesting>=2")
			}
			sinceFlush++
			loneAltPending = false
		case k < 90 && s.o.Cmdline && depth <= s.o.MaxDepth:
			typ := rapid.SampledFrom([]string{"unix", "unix", "windows"}).Draw(t, "cmdtype")
			add(Line{K: KCStart, Cmd: typ})
			nw := rapid.IntRange(1, 4).Draw(t, "nwords")
			for j := 0; j < nw; j++ {
				switch {
				case s.o.IncludeInCmdline && len(s.files) > 0 && rapid.IntRange(0, 2).Draw(t, "cmdinc") == 0:
					add(Line{K: KInclude, File: s.spellFile(rapid.SampledFrom(s.files).Draw(t, "cmdincfile"))})
					s.label("include-in-cmdline")
				case s.o.NestInCmdline && rapid.IntRange(0, 5).Draw(t, "cmdnest") == 0:
					add(Line{K: KAStart})
					for _, e := range rapid.SampledFrom([][]string{{"ab", "cd"}, {"x[0-9]+", "y"}, {"one", "##", "two"}, {"(?:p|q)r"}}).Draw(t, "cmdnestbody") {
						if e == "##" {
							add(Line{K: KConcat})
						} else {
							add(Line{K: KEntry, T: e, Ind: "  "})
						}
					}
					add(Line{K: KEnd})
					s.label("assemble-inside-cmdline")
				case s.o.CmdLiteral && rapid.IntRange(0, 5).Draw(t, "cmdlit") == 0:
					add(Line{K: KEntry, T: "'" + rapid.SampledFrom([]string{`\s+x`, `(?:a|b)`, `[;,]`, `x@`, `y~`}).Draw(t, "cmdlitv")})
					s.label("cmdline-literal")
				default:
					add(Line{K: KEntry, T: CmdWordGen(t)})
				}
			}
			if nw >= 2 && rapid.IntRange(0, 3).Draw(t, "cmddup") == 0 {
				// the same command listed twice (overlapping word lists): still one alternative
				for i := len(out) - 1; i >= 0; i-- {
					if out[i].K == KEntry {
						add(Line{K: KEntry, T: out[i].T})
						s.label("duplicate-command-in-cmdline")
						break
					}
				}
			}
			add(Line{K: KEnd})
			s.label("cmdline-block")
			sinceFlush++
			loneAltPending = sinceFlush == 1 && nw > 1
		case k < 95 && s.o.Includes && len(s.files) > 0:
			f := rapid.SampledFrom(s.files).Draw(t, "incfile")
			add(Line{K: KInclude, File: s.spellFile(f), Pairs: s.pairs(f)})
			s.label("include")
			sinceFlush += 2 // unknown number of lines: treated as "not lone"
			loneAltPending = false
		case k < 100 && s.o.Excepts && len(s.files) > 1:
			f := rapid.SampledFrom(s.files).Draw(t, "excfile")
			var ex []string
			for _, x := range s.files {
				if x != f && rapid.Bool().Draw(t, "useExcl") {
					ex = append(ex, s.spellFile(x))
				}
			}
			if len(ex) == 0 {
				continue
			}
			add(Line{K: KExcept, File: s.spellFile(f), Excl: ex, Pairs: s.pairs(f)})
			s.label("include-except")
			sinceFlush += 2
			loneAltPending = false
		default:
			e := s.entry(false)
			add(Line{K: KEntry, T: e})
			sinceFlush++
			loneAltPending = sinceFlush == 1 && topLevelAlt(e)
		}
	}
	if len(out) == 0 {
		add(Line{K: KEntry, T: s.entry(false)})
	}
	return out
}

// topLevelAlt reports whether the regex text has an alternation outside any group/class.
func topLevelAlt(e string) bool {
	depth := 0
	inClass := false
	for i := 0; i < len(e); i++ {
		c := e[i]
		if c == '\\' {
			if i+1 < len(e) && e[i+1] == 'Q' {
				if j := strings.Index(e[i:], `\E`); j >= 0 {
					i += j + 1
					continue
				}
				return false
			}
			i++
			continue
		}
		if inClass {
			if c == ']' {
				inClass = false
			}
			continue
		}
		switch c {
		case '[':
			inClass = true
			if i+1 < len(e) && e[i+1] == '^' {
				i++
			}
			if i+1 < len(e) && e[i+1] == ']' {
				i++
			}
		case '(':
			depth++
		case ')':
			depth--
		case '|':
			if depth == 0 {
				return true
			}
		}
	}
	return false
}

// CmdWordGen draws a command word over the alphabet C04 states, with optional markers.
func CmdWordGen(t *rapid.T) string {
	n := rapid.IntRange(1, 8).Draw(t, "wlen")
	var sb strings.Builder
	for i := 0; i < n; i++ {
		c := rapid.SampledFrom([]string{"a", "b", "c", "l", "s", "p", "y", "t", "h", "o", "n", "3", "0", ".", "-", "_", " ", "a", "b", "c", "l", "s", "p", "y", "t", "h", "o", "n", "3", "0", ".", "-", "_", " ", "é", "ß", "日"}).Draw(t, "wc")
		if c == " " && (i == 0 || i == n-1) {
			c = "x"
		}
		sb.WriteString(c)
	}
	w := sb.String()
	switch rapid.IntRange(0, 10).Draw(t, "wmark") {
	case 0, 1:
		w += "@"
	case 2, 3:
		w += "~"
	case 4:
		w += `\@`
	case 5:
		w += `\~`
	case 6:
		// the word ends in a literal marker character and carries a marker as well
		w += rapid.SampledFrom([]string{`\@@`, `\@~`, `\~@`, `\~~`}).Draw(t, "wmark2")
	}
	return w
}
