package ragen

import (
	"fmt"
	"sort"
	"strings"
)

// CmdPatterns are the anti-evasion patterns in effect for one shell type (already trimmed).
type CmdPatterns struct {
	Evasion       string
	Suffix        string
	NoSpaceSuffix string
}

// Config mirrors toolchain.yaml after loading: both shells.
type Config struct {
	Unix, Windows CmdPatterns
}

// CmdWord is the documented transformation of one line of a cmdline block.
func CmdWord(word string, pt CmdPatterns) string {
	if strings.HasPrefix(word, "'") {
		return word[1:]
	}
	// "text matched by the configured pattern": the pattern as a unit, whatever its shape (`a|b` too)
	unit := func(p string) string {
		if p == "" {
			return ""
		}
		return "(?:" + p + ")"
	}
	pt = CmdPatterns{Evasion: unit(pt.Evasion), Suffix: unit(pt.Suffix), NoSpaceSuffix: unit(pt.NoSpaceSuffix)}
	stripped, suffix := word, ""
	if n := len(word); n >= 2 {
		bs := 0
		for i := n - 2; i >= 0 && word[i] == '\\'; i-- {
			bs++
		}
		if bs%2 == 0 {
			switch word[n-1] {
			case '@':
				suffix, stripped = pt.Suffix, word[:n-1]
			case '~':
				suffix, stripped = pt.NoSpaceSuffix, word[:n-1]
			}
			// what remains may end in an escaped marker character (`foo\@@`): the backslash goes, the character stays
			if m := len(stripped); m == n-1 && m >= 2 && (stripped[m-1] == '@' || stripped[m-1] == '~') {
				bs := 0
				for i := m - 2; i >= 0 && stripped[i] == '\\'; i-- {
					bs++
				}
				if bs%2 == 1 {
					stripped = stripped[:m-2] + stripped[m-1:]
				}
			}
		} else {
			stripped = word[:n-2] + word[n-1:]
		}
	}
	var sb strings.Builder
	// between any two adjacent characters (not bytes)
	for i, c := range stripped {
		if i > 0 {
			sb.WriteString(pt.Evasion)
		}
		switch c {
		case '.':
			sb.WriteString(`\.`)
		case '-':
			sb.WriteString(`\-`)
		case ' ':
			sb.WriteString(`\s+`)
		default:
			sb.WriteRune(c)
		}
	}
	if suffix != "" {
		sb.WriteString(pt.Evasion)
		sb.WriteString(suffix)
	}
	return sb.String()
}

type frame struct {
	cmd   bool
	pt    CmdPatterns
	out   strings.Builder // concatenation so far
	alt   []string        // pending alternatives
	words []string        // cmdline words
}

func group(alt []string) string {
	if len(alt) == 0 {
		return ""
	}
	parts := make([]string, len(alt))
	for i, a := range alt {
		parts[i] = "(?:" + closeQuote(a) + ")"
	}
	return "(?:" + strings.Join(parts, "|") + ")"
}

func (f *frame) flush() {
	f.out.WriteString(group(f.alt))
	f.alt = nil
}

func (f *frame) value() string {
	if f.cmd {
		if len(f.words) == 0 {
			return "(?:)"
		}
		return group(f.words)
	}
	if f.out.Len() == 0 && len(f.alt) == 0 {
		return ""
	}
	return "(?:" + f.out.String() + group(f.alt) + ")"
}

// Eval computes the plain-reading regex of a resolved file: alternation of entries, blocks
// concatenated at markers, stored expressions substituted, nested blocks as single units,
// prefixes/suffixes around the whole and flags applied globally. The text is meant for the
// equivalence oracle, not for reading: every unit is wrapped in its own group.
func Eval(r *Resolved, cfg Config) (string, error) {
	stash := map[string]string{}
	stack := []*frame{{}}
	top := func() *frame { return stack[len(stack)-1] }
	for _, l := range r.Body {
		f := top()
		if f.cmd && l.K != KEnd {
			switch l.K {
			case KEntry:
				if l.T != "" {
					f.words = append(f.words, CmdWord(l.T, f.pt))
				}
				continue
			case KAStart, KCStart:
				// a nested block is a single unit among the words
			default:
				return "", fmt.Errorf("line kind %s inside cmdline block is outside the plain reading", l.K)
			}
		}
		switch l.K {
		case KEntry:
			f.alt = append(f.alt, l.T)
		case KConcat:
			f.flush()
		case KStore:
			f.flush()
			// storing nothing stores nothing: loading it later contributes no (empty) unit
			if f.out.Len() == 0 {
				stash[l.Name] = ""
			} else {
				stash[l.Name] = "(?:" + f.out.String() + ")"
			}
			f.out.Reset()
		case KLoad:
			f.flush()
			v, ok := stash[l.Name]
			if !ok {
				return "", fmt.Errorf("unknown stored name %q", l.Name)
			}
			f.out.WriteString(v)
		case KAStart:
			stack = append(stack, &frame{})
		case KCStart:
			nf := &frame{cmd: true}
			switch l.Cmd {
			case "unix":
				nf.pt = cfg.Unix
			case "windows":
				nf.pt = cfg.Windows
			default:
				return "", fmt.Errorf("bad cmdline type %q", l.Cmd)
			}
			stack = append(stack, nf)
		case KEnd:
			if len(stack) < 2 {
				return "", fmt.Errorf("unbalanced end marker")
			}
			v := f.value()
			stack = stack[:len(stack)-1]
			if v != "" {
				if top().cmd {
					top().words = append(top().words, v)
				} else {
					top().alt = append(top().alt, v)
				}
			}
		default:
			return "", fmt.Errorf("unexpected line kind %s", l.K)
		}
	}
	// unclosed blocks are closed implicitly only at top level by the tool? No: they are an error.
	if len(stack) != 1 {
		return "", fmt.Errorf("unclosed block")
	}
	body := top().value()
	res := strings.Join(r.Prefixes, "") + body + strings.Join(r.Suffixes, "")
	if res == "" {
		return "", nil
	}
	return FlagPrefix(r.Flags) + res, nil
}

func FlagPrefix(flags map[rune]bool) string {
	if len(flags) == 0 {
		return ""
	}
	var fs []string
	for f := range flags {
		fs = append(fs, string(f))
	}
	sort.Strings(fs)
	return "(?" + strings.Join(fs, "") + ")"
}

// closeQuote terminates a `\Q` literal that runs to the end of an entry, so that the group the
// reference wraps around the entry is not swallowed by it.
func closeQuote(s string) string {
	open := false
	for i := 0; i+1 < len(s); i++ {
		if s[i] != '\\' {
			continue
		}
		switch {
		case !open && s[i+1] == 'Q':
			open = true
			i++
		case open && s[i+1] == 'E':
			open = false
			i++
		case !open:
			i++ // an ordinary escape
		}
	}
	if open {
		return s + `\E`
	}
	return s
}
