package ragen

import (
	"fmt"
	"regexp/syntax"
	"strings"

	"pgregory.net/rapid"
)

// RxOpt steers the entry grammar.
type RxOpt struct {
	Lower      bool // only lowercase ASCII sources (the `i` flag precondition)
	Stress     int  // 0..100: share of atoms taken from the quoting/escaping stress set (C02)
	NoAnchors  bool
	NoTopAlt   bool // no top-level alternation in an entry
	NoSpaceSeq bool // never emit the literal sequence \t\n\f\r<space>
	NoAnyUnion bool // avoid alternatives whose union is "any character" (known finding D17 class)
	NoWsRange  bool // avoid ranges starting at the space character right after white-space escapes (D5)
	// NoCasePairs: no letter occurs in both cases anywhere (open known finding D20: a class that is
	// exactly a case-fold orbit, e.g. `[aA]`, is printed by the engine as `(?i:A)` and loses the flag)
	NoCasePairs bool
	// InlineFlags: entries may contain inline flag groups (outside C01's domain; C02 and C19 use them)
	InlineFlags bool
	// Words: percentage of entries that are plain words built from a small vocabulary of stems and
	// tails, so that entries share literal prefixes and suffixes (drives the factoring passes)
	Words int
	// NoQuoteAfterBackslash: never put a double quote directly after a literal backslash (open known finding D4)
	NoQuoteAfterBackslash bool
	MaxDepth              int
}

var litLower = []string{"a", "b", "c", "d", "e", "a", "b", "ab", "abc", "x", "y", "z", "foo", "bar", "k", "s", "0", "1", "9", "_", "-", "/", ":", ";", "=", "<", ">", "@", "!", "%", "&", "'", ",", "~", "`", "#"}
var litUpper = []string{"A", "B", "K", "S", "Z", "Foo", "aB"}
var litUpperNoPair = []string{"G", "H", "Q", "M", "GH", "QM"}
var litSpace = []string{" ", "a b", "  "}
var escMeta = []string{`\.`, `\*`, `\+`, `\?`, `\(`, `\)`, `\[`, `\]`, `\{`, `\}`, `\|`, `\^`, `\$`, `\\`, `\"`, `\-`, `\/`, `\#`, `\ `, `\'`, `\!`}
var escCtl = []string{`\t`, `\n`, `\f`, `\r`, `\v`, `\a`, `\x00`, `\x01`, `\x1f`, `\x7f`, `\x0b`, `\x0a`, `\x20`}
var escHexLower = []string{`\x5c`, `\x22`, `\x2e`, `\x61`, `\x7c`, `\x28`, `\x29`, `\x{e9}`, `\x{1f600}`, `\x{20ac}`, `\x{ff}`, `\x{100}`, `\x{fffd}`, `\x{80}`, `\x{7ff}`, `\x{800}`, `\x{ffff}`, `\x{10000}`, `\x{10ffff}`, `\x{feff}`, `\x{2028}`}
var escHexUpper = []string{`\x41`, `\x5a`, `\x{212a}`, `\x{17f}`, `\x{c9}`, `\x{3a3}`}
var escHexUpperNoPair = []string{`\x47`, `\x51`, `\x{3a3}`, `\x{c0}`}
var rawNonASCII = []string{"é", "ß", "€", "😀", "日"}
var rawNonASCIIFold = []string{"É", "Σ", "ſ", "K"}
var rawNonASCIIFoldNoPair = []string{"Σ", "À", "Ж"}
var perlLower = []string{`\d`, `\s`, `\w`}
var perlUpper = []string{`\D`, `\S`, `\W`}
var anchors = []string{`^`, `$`, `\b`, `\B`, `\A`, `\z`}
var stressAtoms = []string{`"`, `\"`, `\\`, `\\"`, `\\\"`, `\x5c`, `\x22`, `\\\\`, `"a"`, `\\x`, `[\\"]`, `["]`, `[\\]`, `[^"]`, `[^\\]`, `\s`, `[\s!]`, `[^\s]`, `\S`, `[\s\S]`, `[ \t]`,
	`^`, `$`, `.`, `.*`, `.+`, `^.`, `.$`, `(?:^|x)`, `(?:$|x)`, `(?:.|x)`, "\t", `\x01`, "é", "\ufffd", "a\ufffdb", `[\x{fffd}"]`, `\t\n\f\r `, `x\t\n\f\r y`, "a\u2028", `\x{e9}`, `\v`, `\x0b`, `[\x0b]`, `\x7f`, `[\x00-\x1f]`, `[^ -~]`, `'`, `\'`, ` `, `\ `, `[ ]`, `\/`, `/`, `\#`, `\@rx `, `" \\`, `\$_GET`, `\$HOME`, `\$1`, `\$\{x\}`, `$$`, `%`, `%"`, `%\\`, `%(?:x)`, `%[a]`, `%s`, `%d%%`}
var quantifiers = []string{"*", "+", "?", "{2}", "{1,3}", "{0,2}", "{2,}", "*?", "+?", "??", "{1,2}?"}
var posixLower = []string{"[:digit:]", "[:space:]", "[:^digit:]", "[:punct:]"}
var posix = []string{"[:alpha:]", "[:digit:]", "[:space:]", "[:^digit:]", "[:punct:]", "[:xdigit:]", "[:word:]"}

// Rx draws one regular-expression entry accepted by rassemble (syntax.PerlX|ClassNL).
var wordStems = []string{"some", "another", "big ", "small ", "ab", "abc", "x", "foo", "bar", "se", "sel", ""}
var wordTails = []string{" line", " cat", " dog", "ing", "ed", "x", "bar", "foo", "ect", "", ""}

func Rx(t *rapid.T, o RxOpt) string {
	if o.MaxDepth == 0 {
		o.MaxDepth = 3
	}
	if o.Words > 0 && rapid.IntRange(1, 100).Draw(t, "word?") <= o.Words {
		w := rapid.SampledFrom(wordStems).Draw(t, "stem") + rapid.SampledFrom([]string{"", "", "a", "o", "-", " "}).Draw(t, "mid") + rapid.SampledFrom(wordTails).Draw(t, "tail")
		if ValidEntry(w) {
			return w
		}
	}
	for try := 0; try < 4; try++ {
		s := rxAlt(t, o, o.MaxDepth, true)
		if ValidEntry(s) {
			return s
		}
	}
	return "x"
}

// ValidEntry reports whether s is a line the assembler accepts as a regular entry.
func ValidEntry(s string) bool {
	if strings.TrimSpace(s) == "" {
		// a line of nothing but white space (in the Unicode sense, e.g. a lone U+2028 or NBSP) is a blank line, not an entry
		return false
	}
	if s == "" || strings.TrimLeft(s, " \t") != s || strings.HasPrefix(s, "##!") || strings.ContainsAny(s, "\n\r") {
		return false
	}
	if strings.Contains(s, "{{") || strings.Contains(s, "##!>") {
		return false
	}
	if s[len(s)-1] == ' ' || s[len(s)-1] == '\t' {
		return false
	}
	_, err := syntax.Parse(s, syntax.PerlX|syntax.ClassNL)
	return err == nil
}

// ValidEntryWS is ValidEntry for entries that may end in blanks or tabs (only indentation is
// insignificant in an assembly file; trailing white space belongs to the expression).
func ValidEntryWS(s string) bool {
	core := strings.TrimRight(s, " \t")
	if core == s {
		return ValidEntry(s)
	}
	if !ValidEntry(core) {
		return false
	}
	_, err := syntax.Parse(s, syntax.PerlX|syntax.ClassNL)
	return err == nil
}

func pick(t *rapid.T, label string, lists ...[]string) string {
	n := 0
	for _, l := range lists {
		n += len(l)
	}
	i := rapid.IntRange(0, n-1).Draw(t, label)
	for _, l := range lists {
		if i < len(l) {
			return l[i]
		}
		i -= len(l)
	}
	panic("unreachable")
}

func rxAlt(t *rapid.T, o RxOpt, depth int, top bool) string {
	n := 1
	if !(top && o.NoTopAlt) {
		switch rapid.IntRange(0, 9).Draw(t, "altn") {
		case 0, 1:
			n = 2
		case 2:
			n = 3
		}
	}
	parts := make([]string, n)
	for i := range parts {
		parts[i] = rxConcat(t, o, depth)
	}
	if n > 1 && rapid.IntRange(0, 14).Draw(t, "emptyalt") == 0 {
		parts[rapid.IntRange(0, n-1).Draw(t, "emptyidx")] = ""
	}
	return strings.Join(parts, "|")
}

func rxConcat(t *rapid.T, o RxOpt, depth int) string {
	n := rapid.IntRange(1, 4).Draw(t, "catn")
	var sb strings.Builder
	for i := 0; i < n; i++ {
		a := rxAtom(t, o, depth)
		if rapid.IntRange(0, 3).Draw(t, "q?") == 0 && quantifiable(a) {
			a += rapid.SampledFrom(quantifiers).Draw(t, "quant")
		}
		if o.NoQuoteAfterBackslash && endsInLiteralBackslash(sb.String()) && (strings.HasPrefix(a, `"`) || strings.HasPrefix(a, `\"`)) {
			sb.WriteString("x")
		}
		sb.WriteString(a)
	}
	return sb.String()
}

func endsInLiteralBackslash(s string) bool {
	if strings.HasSuffix(s, `\x5c`) {
		return true
	}
	n := 0
	for i := len(s) - 1; i >= 0 && s[i] == '\\'; i-- {
		n++
	}
	return n > 0 && n%2 == 0
}

// D4Shape reports whether the text has a double quote directly after a literal backslash.
func D4Shape(s string) bool {
	for i := 0; i < len(s); i++ {
		if s[i] == '"' && endsInLiteralBackslash(s[:i]) {
			return true
		}
		if s[i] == '\\' && i+1 < len(s) && s[i+1] == '"' && endsInLiteralBackslash(s[:i]) {
			return true
		}
	}
	return false
}

// quantifiable: a quantifier may follow (not after an anchor / empty / something ending in a quantifier).
func quantifiable(a string) bool {
	if a == "" {
		return false
	}
	for _, an := range anchors {
		if a == an {
			return false
		}
	}
	if strings.HasPrefix(a, `\Q`) {
		return false
	}
	// multi-rune raw literal: quantifier binds to the last rune only, which is fine
	last := a[len(a)-1]
	if strings.ContainsRune("*+?", rune(last)) && !strings.HasSuffix(a, `\`+string(last)) {
		return false
	}
	if last == '}' && !strings.HasSuffix(a, `\}`) && !strings.Contains(a, `\x{`) {
		return false
	}
	return true
}

func rxAtom(t *rapid.T, o RxOpt, depth int) string {
	if o.InlineFlags && rapid.IntRange(0, 14).Draw(t, "inlineflag?") == 0 {
		return rapid.SampledFrom([]string{`(?i:union)`, `(?i:ab)c`, `(?i)x`, `(?s:.)`, `(?-s:.)q`, `(?i:a|b)`, `(?m:^)z`, `(?U)a+`, `(?is:a.b)`}).Draw(t, "inlineflag")
	}
	if o.Stress > 0 && rapid.IntRange(1, 100).Draw(t, "stress?") <= o.Stress {
		for {
			a := rapid.SampledFrom(stressAtoms).Draw(t, "stress")
			if o.NoAnchors && (strings.ContainsAny(a, "^$") && !strings.Contains(a, "[")) {
				continue
			}
			if o.NoAnyUnion && (a == `[\s\S]` || a == `(?:.|x)`) {
				continue
			}
			if o.Lower && CaseOpenNegated(a) {
				continue
			}
			if o.NoQuoteAfterBackslash && D4Shape(a) {
				continue
			}
			return a
		}
	}
	k := (rapid.IntRange(0, 99).Draw(t, "atomk") * 37) % 100 // scrambled: rapid favours small integers
	switch {
	case k < 38:
		if !o.Lower && rapid.IntRange(0, 5).Draw(t, "up?") == 0 {
			if o.NoCasePairs {
				return rapid.SampledFrom(litUpperNoPair).Draw(t, "lit")
			}
			return rapid.SampledFrom(litUpper).Draw(t, "lit")
		}
		return rapid.SampledFrom(litLower).Draw(t, "lit")
	case k < 42:
		return rapid.SampledFrom(litSpace).Draw(t, "lit")
	case k < 50:
		return rapid.SampledFrom(escMeta).Draw(t, "esc")
	case k < 55:
		return rapid.SampledFrom(escCtl).Draw(t, "ctl")
	case k < 60:
		if o.Lower {
			return rapid.SampledFrom(escHexLower[:8]).Draw(t, "hex")
		}
		if o.NoCasePairs {
			return pick(t, "hex", escHexLower, escHexUpperNoPair)
		}
		return pick(t, "hex", escHexLower, escHexUpper)
	case k < 63:
		if o.Lower {
			return rapid.SampledFrom(litLower).Draw(t, "lit")
		}
		if o.NoCasePairs {
			return pick(t, "raw", rawNonASCII, rawNonASCIIFoldNoPair)
		}
		return pick(t, "raw", rawNonASCII, rawNonASCIIFold)
	case k < 68:
		if o.Lower {
			return pick(t, "perl", perlLower, []string{`\D`, `\S`})
		}
		return pick(t, "perl", perlLower, perlUpper)
	case k < 72:
		if o.NoAnyUnion {
			return "a"
		}
		return "."
	case k < 76:
		if o.NoAnchors {
			return "b"
		}
		return rapid.SampledFrom(anchors).Draw(t, "anchor")
	case k < 88:
		return rxClass(t, o)
	case k < 90:
		return `\Q` + rapid.SampledFrom([]string{"a.b", "(x)", "a|b", "[", "*+", `"`, "a b"}).Draw(t, "q") + `\E`
	default:
		if depth <= 0 {
			return rapid.SampledFrom(litLower).Draw(t, "lit")
		}
		body := rxAlt(t, o, depth-1, false)
		switch rapid.IntRange(0, 5).Draw(t, "grp") {
		case 0:
			return "(" + body + ")"
		case 1:
			return "(?P<n" + fmt.Sprint(rapid.IntRange(0, 99).Draw(t, "gn")) + ">" + body + ")"
		default:
			return "(?:" + body + ")"
		}
	}
}

var classItemsLower = []string{"a", "b", "c", "a-c", "a-z", "0-9", "b-d", "x", "_", ".", "*", "|", "(", ")", "$", "^", `\-`, `\]`, `\[`, `\\`, `"`, `\"`, "'", " ", "/", "!", `\t`, `\n`, `\r`, `\x00`, `\x5c`, `\x22`, `\x0b`, `\x00-\x1f`, `\x7f`, " -~", "!-/", `\d`, `\s`, `\w`}
var classItemsUpperNoPair = []string{"G", "A-Z", "A-C", "Q", `\D`, `\W`, `\S`, "é", "α-ω", `\x{e9}`, `\x{100}-\x{17f}`, `\x{1f600}`, `\x80-\x{10ffff}`}
var classItemsUpper = []string{"A", "A-Z", "A-C", "K", `\D`, `\W`, `\S`, "é", "α-ω", `\x{e9}`, `\x{100}-\x{17f}`, `\x{1f600}`, `\x80-\x{10ffff}`}
var classWsRange = []string{`\s -z`, `\t\n\f\r -z`, `\s --`}

func rxClass(t *rapid.T, o RxOpt) string {
	var sb strings.Builder
	sb.WriteString("[")
	neg := rapid.IntRange(0, 4).Draw(t, "neg") == 0
	if neg {
		sb.WriteString("^")
	}
	n := rapid.IntRange(1, 4).Draw(t, "cn")
	for i := 0; i < n; i++ {
		k := rapid.IntRange(0, 19).Draw(t, "ck")
		switch {
		case k == 0:
			if o.Lower {
				sb.WriteString(rapid.SampledFrom(posixLower).Draw(t, "posix"))
			} else {
				sb.WriteString(rapid.SampledFrom(posix).Draw(t, "posix"))
			}
		case k == 1 && !o.NoWsRange:
			if o.Lower {
				// ranges must not span upper-case letters under the `i` flag
				sb.WriteString(rapid.SampledFrom([]string{`\s --`, `\s -/`, `\t\n\f\r -9`}).Draw(t, "wsr"))
			} else {
				sb.WriteString(rapid.SampledFrom(classWsRange).Draw(t, "wsr"))
			}
		case k < 6 && !o.Lower:
			lst := classItemsUpper
			if o.NoCasePairs {
				lst = classItemsUpperNoPair
			}
			it := rapid.SampledFrom(lst).Draw(t, "ci")
			if o.NoAnyUnion && neg && (it == `\D` || it == `\W` || it == `\S`) {
				it = "a"
			}
			sb.WriteString(it)
		default:
			it := rapid.SampledFrom(classItemsLower).Draw(t, "ci")
			if o.Lower && neg && it == `\w` {
				it = `\d`
			}
			// under `i` a negated class keeps U+0000, so that the engine prints it in negated form
			// (open known finding D21 otherwise)
			if o.Lower && neg && it == `\x00` {
				it = `\x02`
			}
			if o.Lower && neg && it == `\x00-\x1f` {
				it = `\x01-\x1f`
			}
			if o.Lower && it == " -~" {
				it = " -/"
			}
			if it == "^" && i == 0 && !neg {
				it = `\^`
			}
			sb.WriteString(it)
		}
	}
	sb.WriteString("]")
	return sb.String()
}

// CaseOpenNegated reports whether the regex text contains a negated class or negated shorthand
// (a class containing U+0000 and U+10FFFF) whose excluded set covers an upper-case ASCII letter:
// `\W`, `[^\w]`, `[^ -~]`, `[^[:alpha:]]`, `[^\s -z]`. Under the `i` flag the union of such a class
// with a lower-case literal is computed case-sensitively by the assembler (open known finding D22).
func CaseOpenNegated(text string) bool {
	re, err := syntax.Parse(text, syntax.PerlX|syntax.ClassNL)
	if err != nil {
		return false
	}
	found := false
	var walk func(r *syntax.Regexp)
	walk = func(r *syntax.Regexp) {
		if r.Op == syntax.OpCharClass && len(r.Rune) >= 2 && r.Rune[0] == 0 && r.Rune[len(r.Rune)-1] == 0x10ffff {
			for u := rune('A'); u <= 'Z'; u++ {
				in := false
				for i := 0; i+1 < len(r.Rune); i += 2 {
					if r.Rune[i] <= u && u <= r.Rune[i+1] {
						in = true
						break
					}
				}
				if !in {
					found = true
					return
				}
			}
		}
		for _, s := range r.Sub {
			walk(s)
		}
	}
	walk(re)
	return found
}
