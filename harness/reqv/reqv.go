// Package reqv decides full-match language equivalence of two RE2 expressions exactly, by
// breadth-first exploration of the product of their determinised regexp/syntax programs over one
// representative rune per minterm of all rune ranges involved. A difference comes with a
// shortest distinguishing string, which the caller must (and Compare does) confirm with the real
// regexp engine.
package reqv

import (
	"fmt"
	"regexp"
	"regexp/syntax"
	"sort"
	"strings"
	"unicode"
)

type Verdict int

const (
	Equal Verdict = iota
	Different
	Inconclusive // state cap reached
	Error        // an expression does not parse/compile, or a witness could not be confirmed
)

func (v Verdict) String() string {
	return [...]string{"equal", "different", "inconclusive", "error"}[v]
}

type Result struct {
	Verdict Verdict
	Witness string // distinguishing string (Different)
	InA     bool   // Witness is fully matched by A (and not by B) or vice versa
	States  int
	Err     string
}

type Options struct {
	SkipVT   bool   // leave U+000B out of the alphabet
	Skip     []rune // further single runes left out of the alphabet
	MaxState int    // product-state cap (default 50000)
}

type prog struct {
	p     *syntax.Prog
	runes []int // pcs of rune instructions
}

func compile(expr string) (*prog, error) {
	re, err := syntax.Parse(expr, syntax.Perl)
	if err != nil {
		return nil, err
	}
	p, err := syntax.Compile(re.Simplify())
	if err != nil {
		return nil, err
	}
	pr := &prog{p: p}
	for pc := range p.Inst {
		switch p.Inst[pc].Op {
		case syntax.InstRune, syntax.InstRune1, syntax.InstRuneAny, syntax.InstRuneAnyNotNL:
			pr.runes = append(pr.runes, pc)
		}
	}
	return pr, nil
}

const (
	clsNone  = 0 // start of text
	clsNL    = 1
	clsWord  = 2
	clsOther = 3
)

func classOf(r rune) int {
	switch {
	case r < 0:
		return clsNone
	case r == '\n':
		return clsNL
	case syntax.IsWordChar(r):
		return clsWord
	}
	return clsOther
}

var clsRep = [...]rune{-1, '\n', 'a', ' '}

// closure follows empty transitions from the pending pcs given the context (prev class, next rune
// or -1 for end of text). It returns the rune instructions reached and whether Match was reached.
func (pr *prog) closure(pending []uint32, prevCls int, next rune, seen []bool, stack []uint32) (runes []uint32, match bool) {
	flags := syntax.EmptyOpContext(clsRep[prevCls], next)
	for i := range seen {
		seen[i] = false
	}
	stack = stack[:0]
	for i := len(pending) - 1; i >= 0; i-- {
		stack = append(stack, pending[i])
	}
	for len(stack) > 0 {
		pc := stack[len(stack)-1]
		stack = stack[:len(stack)-1]
		if seen[pc] {
			continue
		}
		seen[pc] = true
		in := &pr.p.Inst[pc]
		switch in.Op {
		case syntax.InstAlt, syntax.InstAltMatch:
			stack = append(stack, in.Arg, in.Out)
		case syntax.InstNop, syntax.InstCapture:
			stack = append(stack, in.Out)
		case syntax.InstEmptyWidth:
			if syntax.EmptyOp(in.Arg)&^flags == 0 {
				stack = append(stack, in.Out)
			}
		case syntax.InstMatch:
			match = true
		case syntax.InstFail:
		default:
			runes = append(runes, pc)
		}
	}
	return runes, match
}

func (pr *prog) step(pending []uint32, prevCls int, r rune, seen []bool, stack []uint32) []uint32 {
	rs, _ := pr.closure(pending, prevCls, r, seen, stack)
	var next []uint32
	for _, pc := range rs {
		in := &pr.p.Inst[pc]
		if in.MatchRune(r) {
			next = append(next, in.Out)
		}
	}
	sort.Slice(next, func(i, j int) bool { return next[i] < next[j] })
	// dedupe
	out := next[:0]
	for i, v := range next {
		if i == 0 || v != next[i-1] {
			out = append(out, v)
		}
	}
	return out
}

func (pr *prog) hasEmptyWidth() bool {
	for i := range pr.p.Inst {
		if pr.p.Inst[i].Op == syntax.InstEmptyWidth {
			return true
		}
	}
	return false
}

// alphabet computes one representative rune per behaviour class.
func alphabet(a, b *prog, skipVT bool, skip []rune) []rune {
	pts := map[rune]bool{0: true, '\n': true, 0x0b: true, 0x0c: true,
		'0': true, '9' + 1: true, 'A': true, 'Z' + 1: true, '_': true, '_' + 1: true, 'a': true, 'z' + 1: true,
		0xD800: true, 0xE000: true}
	add := func(r rune) {
		if r >= 0 && r <= unicode.MaxRune {
			pts[r] = true
		}
	}
	skipSet := map[rune]bool{}
	for _, r := range skip {
		skipSet[r] = true
		add(r)
		add(r + 1)
	}
	for _, pr := range []*prog{a, b} {
		for _, pc := range pr.runes {
			in := &pr.p.Inst[pc]
			switch in.Op {
			case syntax.InstRuneAny, syntax.InstRuneAnyNotNL:
				continue
			}
			rs := in.Rune
			if len(rs) == 1 {
				r0 := rs[0]
				add(r0)
				add(r0 + 1)
				if syntax.Flags(in.Arg)&syntax.FoldCase != 0 {
					for r1 := unicode.SimpleFold(r0); r1 != r0; r1 = unicode.SimpleFold(r1) {
						add(r1)
						add(r1 + 1)
					}
				}
				continue
			}
			for i := 0; i+1 < len(rs); i += 2 {
				add(rs[i])
				add(rs[i+1] + 1)
			}
		}
	}
	sorted := make([]rune, 0, len(pts))
	for r := range pts {
		sorted = append(sorted, r)
	}
	sort.Slice(sorted, func(i, j int) bool { return sorted[i] < sorted[j] })
	// one representative per signature
	seenSig := map[string]bool{}
	var reps []rune
	var sb strings.Builder
	for _, r := range sorted {
		if r >= 0xD800 && r < 0xE000 {
			continue // surrogates cannot occur in a string
		}
		if skipVT && r == 0x0b {
			continue
		}
		if skipSet[r] {
			continue
		}
		sb.Reset()
		sb.WriteByte(byte('0' + classOf(r)))
		for _, pr := range []*prog{a, b} {
			for _, pc := range pr.runes {
				if pr.p.Inst[pc].MatchRune(r) {
					sb.WriteByte('1')
				} else {
					sb.WriteByte('0')
				}
			}
			sb.WriteByte('/')
		}
		sig := sb.String()
		if !seenSig[sig] {
			seenSig[sig] = true
			reps = append(reps, r)
		}
	}
	return reps
}

type state struct {
	a, b   []uint32
	cls    int
	parent int
	via    rune
}

func key(cls int, a, b []uint32) string {
	var sb strings.Builder
	sb.Grow(2 + 4*(len(a)+len(b)))
	sb.WriteByte(byte(cls))
	for _, v := range a {
		sb.WriteByte(byte(v))
		sb.WriteByte(byte(v >> 8))
		sb.WriteByte(byte(v >> 16))
	}
	sb.WriteByte(0xff)
	sb.WriteByte(0xff)
	sb.WriteByte(0xff)
	for _, v := range b {
		sb.WriteByte(byte(v))
		sb.WriteByte(byte(v >> 8))
		sb.WriteByte(byte(v >> 16))
	}
	return sb.String()
}

// Compare decides whether exprA and exprB fully match exactly the same strings.
func Compare(exprA, exprB string, opt Options) Result {
	if opt.MaxState == 0 {
		opt.MaxState = 50000
	}
	a, err := compile(exprA)
	if err != nil {
		return Result{Verdict: Error, Err: "A: " + err.Error()}
	}
	b, err := compile(exprB)
	if err != nil {
		return Result{Verdict: Error, Err: "B: " + err.Error()}
	}
	reps := alphabet(a, b, opt.SkipVT, opt.Skip)
	trackCls := a.hasEmptyWidth() || b.hasEmptyWidth()
	seenA := make([]bool, len(a.p.Inst))
	seenB := make([]bool, len(b.p.Inst))
	var stack []uint32

	states := []state{{a: []uint32{uint32(a.p.Start)}, b: []uint32{uint32(b.p.Start)}, cls: clsNone, parent: -1}}
	index := map[string]int{key(clsNone, states[0].a, states[0].b): 0}
	witness := func(i int) string {
		var rs []rune
		for ; states[i].parent >= 0; i = states[i].parent {
			rs = append(rs, states[i].via)
		}
		for l, r := 0, len(rs)-1; l < r; l, r = l+1, r-1 {
			rs[l], rs[r] = rs[r], rs[l]
		}
		return string(rs)
	}
	for i := 0; i < len(states); i++ {
		st := states[i]
		_, ma := a.closure(st.a, st.cls, -1, seenA, stack)
		_, mb := b.closure(st.b, st.cls, -1, seenB, stack)
		if ma != mb {
			w := witness(i)
			res := Result{Verdict: Different, Witness: w, InA: ma, States: len(states)}
			ca, cb, err := confirm(exprA, exprB, w)
			if err != nil || ca != ma || cb != mb {
				return Result{Verdict: Error, Witness: w, States: len(states),
					Err: fmt.Sprintf("witness %q not confirmed by regexp (oracle says A=%v B=%v, engine says A=%v B=%v, err=%v)", w, ma, mb, ca, cb, err)}
			}
			return res
		}
		if len(states) > opt.MaxState {
			return Result{Verdict: Inconclusive, States: len(states)}
		}
		for _, r := range reps {
			na := a.step(st.a, st.cls, r, seenA, stack)
			nb := b.step(st.b, st.cls, r, seenB, stack)
			if len(na) == 0 && len(nb) == 0 {
				continue
			}
			cls := clsOther
			if trackCls {
				cls = classOf(r)
			}
			k := key(cls, na, nb)
			if _, ok := index[k]; ok {
				continue
			}
			index[k] = len(states)
			states = append(states, state{a: na, b: nb, cls: cls, parent: i, via: r})
		}
	}
	return Result{Verdict: Equal, States: len(states)}
}

func confirm(exprA, exprB, w string) (bool, bool, error) {
	ra, err := regexp.Compile(`\A(?:` + exprA + `)\z`)
	if err != nil {
		return false, false, err
	}
	rb, err := regexp.Compile(`\A(?:` + exprB + `)\z`)
	if err != nil {
		return false, false, err
	}
	return ra.MatchString(w), rb.MatchString(w), nil
}

// FullMatch reports whether expr matches the whole of s.
func FullMatch(expr, s string) (bool, error) {
	r, err := regexp.Compile(`\A(?:` + expr + `)\z`)
	if err != nil {
		return false, err
	}
	return r.MatchString(s), nil
}

// Matcher compiles expr once and returns a full-match predicate.
func Matcher(expr string) (func(string) bool, error) {
	r, err := regexp.Compile(`\A(?:` + expr + `)\z`)
	if err != nil {
		return nil, err
	}
	return r.MatchString, nil
}
