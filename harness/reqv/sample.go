package reqv

import (
	"regexp/syntax"
	"unicode"
)

// Sampler derives strings from a regex AST with a small deterministic PRNG whose seed is part
// of the generated case (drawn through rapid), so samples are reproducible from the case.
type Sampler struct{ s uint64 }

func NewSampler(seed uint64) *Sampler {
	if seed == 0 {
		seed = 0x9e3779b97f4a7c15
	}
	return &Sampler{s: seed}
}

func (p *Sampler) next() uint64 {
	p.s ^= p.s << 13
	p.s ^= p.s >> 7
	p.s ^= p.s << 17
	return p.s
}

func (p *Sampler) Intn(n int) int {
	if n <= 1 {
		return 0
	}
	return int(p.next() % uint64(n))
}

// Sample returns one string derived from expr (parsed as Perl syntax), verified to be fully
// matched by expr; ok is false if no verified sample was found in a few attempts.
func (p *Sampler) Sample(expr string) (string, bool) {
	re, err := syntax.Parse(expr, syntax.Perl)
	if err != nil {
		return "", false
	}
	for try := 0; try < 6; try++ {
		var out []rune
		p.gen(re, &out, 0)
		s := string(out)
		if m, err := FullMatch(expr, s); err == nil && m {
			return s, true
		}
	}
	return "", false
}

var anyPool = []rune{'a', 'x', '1', ' ', '-', '"', '\\', '$', 'Z', '<', '/', 'é'}

func (p *Sampler) gen(re *syntax.Regexp, out *[]rune, depth int) {
	switch re.Op {
	case syntax.OpLiteral:
		for _, r := range re.Rune {
			if re.Flags&syntax.FoldCase != 0 && p.Intn(2) == 0 {
				if f := unicode.SimpleFold(r); f < 128 {
					r = f
				}
			}
			*out = append(*out, r)
		}
	case syntax.OpCharClass:
		if len(re.Rune) == 0 {
			return
		}
		i := p.Intn(len(re.Rune)/2) * 2
		lo, hi := re.Rune[i], re.Rune[i+1]
		// prefer printable ASCII members of the range
		if lo < 0x20 && hi >= 0x7e {
			lo, hi = 0x20, 0x7e
		}
		r := lo
		if hi > lo {
			span := int(hi - lo)
			if span > 64 {
				span = 64
			}
			r = lo + rune(p.Intn(span+1))
		}
		if r >= 0xD800 && r < 0xE000 {
			r = lo
		}
		*out = append(*out, r)
	case syntax.OpAnyCharNotNL:
		*out = append(*out, anyPool[p.Intn(len(anyPool))])
	case syntax.OpAnyChar:
		if p.Intn(6) == 0 {
			*out = append(*out, '\n')
		} else {
			*out = append(*out, anyPool[p.Intn(len(anyPool))])
		}
	case syntax.OpStar:
		for n := p.Intn(4); n > 0; n-- {
			p.gen(re.Sub[0], out, depth+1)
		}
	case syntax.OpPlus:
		for n := 1 + p.Intn(3); n > 0; n-- {
			p.gen(re.Sub[0], out, depth+1)
		}
	case syntax.OpQuest:
		if p.Intn(2) == 0 {
			p.gen(re.Sub[0], out, depth+1)
		}
	case syntax.OpRepeat:
		n := re.Min
		if re.Max < 0 {
			n += p.Intn(3)
		} else if re.Max > re.Min {
			n += p.Intn(re.Max - re.Min + 1)
		}
		for ; n > 0; n-- {
			p.gen(re.Sub[0], out, depth+1)
		}
	case syntax.OpConcat:
		for _, s := range re.Sub {
			p.gen(s, out, depth+1)
		}
	case syntax.OpAlternate:
		p.gen(re.Sub[p.Intn(len(re.Sub))], out, depth+1)
	case syntax.OpCapture:
		p.gen(re.Sub[0], out, depth+1)
	}
}
