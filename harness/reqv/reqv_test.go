package reqv

import (
	"regexp"
	"testing"

	"pgregory.net/rapid"
)

func TestKnownPairs(t *testing.T) {
	cases := []struct {
		a, b string
		v    Verdict
		w    string
	}{
		{`(?:x)(?:a|b)(?:c)`, `(?:xa|b)c`, Different, "bc"},
		{`[\s -z]a`, `[\s\x0b-z]a`, Different, "\x0ea"},
		{`a(?:.|\n)b`, `a.b`, Different, "a\nb"},
		{`a|b|c`, `[a-c]`, Equal, ""},
		{`(?i)abc`, `(?i)ABC`, Equal, ""},
		{`(?i)k`, `[kK\x{212a}]`, Equal, ""},
		{`^a$`, `\Aa\z`, Equal, ""},   // Go: $ without m is end of text
		{`\bfoo\b`, `foo`, Equal, ""}, // full match: boundaries at text ends hold for word chars
		{`a\b-`, `a-`, Equal, ""},
		{`a\B-`, `a-`, Different, "a-"},
		{`(?s).`, `.|\n`, Equal, ""},
		{`[^a]`, `.`, Different, "\n"},
		{`\s`, `[\t\n\f\r ]`, Equal, ""},
		{`[\s\x0b]`, `\s`, Equal, ""}, // VT skipped
		{`a*?b`, `a*b`, Equal, ""},
		{`(foo|foobar)baz`, `foo(?:bar)?baz`, Equal, ""},
		{`\x{1F600}|a`, `[a\x{1F600}]`, Equal, ""},
	}
	for _, c := range cases {
		r := Compare(c.a, c.b, Options{SkipVT: true})
		if r.Verdict != c.v {
			t.Errorf("%q vs %q: got %v (%q %s), want %v", c.a, c.b, r.Verdict, r.Witness, r.Err, c.v)
			continue
		}
		if c.v == Different && c.w != "" && r.Witness != c.w {
			t.Logf("%q vs %q: witness %q (expected %q)", c.a, c.b, r.Witness, c.w)
		}
	}
}

var atoms = []string{"a", "b", "c", `\n`, ".", "[ab]", "[^a]", `\b`, `\B`, "^", "$", `\s`, `\w`, "(?:a|bc)", "a*", "b+", "c?", "[a-c]{1,2}", `\A`, `\z`, "(?i:a)", `\W`, " ", "-"}

func genExpr(t *rapid.T, depth int) string {
	n := rapid.IntRange(1, 4).Draw(t, "n")
	s := ""
	for i := 0; i < n; i++ {
		switch k := rapid.IntRange(0, 9).Draw(t, "k"); {
		case k < 6 || depth <= 0:
			s += rapid.SampledFrom(atoms).Draw(t, "atom")
		case k < 8:
			s += "(?:" + genExpr(t, depth-1) + "|" + genExpr(t, depth-1) + ")"
		default:
			s += "(?:" + genExpr(t, depth-1) + ")" + rapid.SampledFrom([]string{"*", "+", "?", "{0,2}"}).Draw(t, "q")
		}
	}
	return s
}

// brute force over all strings up to length 4 over a small alphabet must agree with Compare
// whenever Compare says Different within that space, and never contradict Equal.
func TestAgainstBruteForce(t *testing.T) {
	alpha := []rune{'a', 'b', 'c', '\n', ' ', '-', 'A'}
	var all []string
	var rec func(prefix string, n int)
	rec = func(prefix string, n int) {
		all = append(all, prefix)
		if n == 0 {
			return
		}
		for _, r := range alpha {
			rec(prefix+string(r), n-1)
		}
	}
	rec("", 4)
	rapid.Check(t, func(t *rapid.T) {
		a, b := genExpr(t, 2), genExpr(t, 2)
		if rapid.Bool().Draw(t, "same") {
			b = "(?:" + a + ")|" + b
			a = a + "|" + b
		}
		ra, err := regexp.Compile(`\A(?:` + a + `)\z`)
		if err != nil {
			t.Skip()
		}
		rb, err := regexp.Compile(`\A(?:` + b + `)\z`)
		if err != nil {
			t.Skip()
		}
		res := Compare(a, b, Options{SkipVT: true})
		if res.Verdict == Error {
			t.Fatalf("error %s on %q %q", res.Err, a, b)
		}
		bruteDiff := ""
		found := false
		for _, s := range all {
			if ra.MatchString(s) != rb.MatchString(s) {
				bruteDiff, found = s, true
				break
			}
		}
		if res.Verdict == Equal && found {
			t.Fatalf("Compare says equal but %q distinguishes %q / %q", bruteDiff, a, b)
		}
		if res.Verdict == Different {
			if ra.MatchString(res.Witness) == rb.MatchString(res.Witness) {
				t.Fatalf("bogus witness %q for %q / %q", res.Witness, a, b)
			}
		}
	})
}
