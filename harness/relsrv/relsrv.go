// Package relsrv is a fake GitHub release service: a loopback CONNECT proxy that terminates TLS
// with certificates minted by a throw-away CA and serves api.github.com / github.com from a
// catalogue set by the test. The CLI under test is pointed at it with HTTPS_PROXY,
// SSL_CERT_FILE and SSL_CERT_DIR; no hook in the code under test is needed.
package relsrv

import (
	"bufio"
	"crypto/ecdsa"
	"crypto/elliptic"
	"crypto/rand"
	"crypto/tls"
	"crypto/x509"
	"crypto/x509/pkix"
	"encoding/json"
	"encoding/pem"
	"fmt"
	"math/big"
	"net"
	"net/http"
	"strconv"
	"strings"
	"sync"
	"time"
)

type Asset struct {
	ID   int64
	Name string
	Body []byte
}

type Release struct {
	ID         int64
	Tag        string
	Draft      bool
	Prerelease bool
	Assets     []Asset
}

// Fault injects one failure: Kind is "" or list-500 | list-404 | list-garbage | asset-404 | asset-500 |
// asset-truncated | checksum-404 | checksum-500 ; it applies to every matching request.
type Catalogue struct {
	Releases []Release
	Fault    string
}

type Server struct {
	mu       sync.Mutex
	cat      Catalogue
	log      []string
	ln       net.Listener
	caPEM    []byte
	leaf     tls.Certificate
	checksum string // name of the checksum asset
}

func (s *Server) Addr() string  { return s.ln.Addr().String() }
func (s *Server) CAPEM() []byte { return s.caPEM }

func (s *Server) Set(c Catalogue) {
	s.mu.Lock()
	s.cat = c
	s.log = nil
	s.mu.Unlock()
}

func (s *Server) Requests() []string {
	s.mu.Lock()
	defer s.mu.Unlock()
	return append([]string{}, s.log...)
}

func Start(checksumName string) (*Server, error) {
	caKey, err := ecdsa.GenerateKey(elliptic.P256(), rand.Reader)
	if err != nil {
		return nil, err
	}
	caTpl := &x509.Certificate{
		SerialNumber: big.NewInt(1), Subject: pkix.Name{CommonName: "verif throw-away CA"},
		NotBefore: time.Now().Add(-time.Hour), NotAfter: time.Now().Add(48 * time.Hour),
		IsCA: true, BasicConstraintsValid: true, KeyUsage: x509.KeyUsageCertSign | x509.KeyUsageDigitalSignature,
	}
	caDER, err := x509.CreateCertificate(rand.Reader, caTpl, caTpl, &caKey.PublicKey, caKey)
	if err != nil {
		return nil, err
	}
	caCert, _ := x509.ParseCertificate(caDER)
	leafKey, err := ecdsa.GenerateKey(elliptic.P256(), rand.Reader)
	if err != nil {
		return nil, err
	}
	leafTpl := &x509.Certificate{
		SerialNumber: big.NewInt(2), Subject: pkix.Name{CommonName: "github.com"},
		NotBefore: time.Now().Add(-time.Hour), NotAfter: time.Now().Add(48 * time.Hour),
		KeyUsage: x509.KeyUsageDigitalSignature, ExtKeyUsage: []x509.ExtKeyUsage{x509.ExtKeyUsageServerAuth},
		DNSNames: []string{"github.com", "api.github.com", "objects.githubusercontent.com", "*.githubusercontent.com", "uploads.github.com"},
	}
	leafDER, err := x509.CreateCertificate(rand.Reader, leafTpl, caCert, &leafKey.PublicKey, caKey)
	if err != nil {
		return nil, err
	}
	s := &Server{
		caPEM:    pem.EncodeToMemory(&pem.Block{Type: "CERTIFICATE", Bytes: caDER}),
		leaf:     tls.Certificate{Certificate: [][]byte{leafDER}, PrivateKey: leafKey},
		checksum: checksumName,
	}
	s.ln, err = net.Listen("tcp", "127.0.0.1:0")
	if err != nil {
		return nil, err
	}
	go s.acceptLoop()
	return s, nil
}

func (s *Server) Close() { _ = s.ln.Close() }

func (s *Server) acceptLoop() {
	for {
		c, err := s.ln.Accept()
		if err != nil {
			return
		}
		go s.handleConn(c)
	}
}

func (s *Server) handleConn(c net.Conn) {
	defer c.Close()
	_ = c.SetDeadline(time.Now().Add(30 * time.Second))
	br := bufio.NewReader(c)
	req, err := http.ReadRequest(br)
	if err != nil {
		return
	}
	if req.Method != http.MethodConnect {
		fmt.Fprintf(c, "HTTP/1.1 405 Method Not Allowed\r\nContent-Length: 0\r\n\r\n")
		return
	}
	fmt.Fprintf(c, "HTTP/1.1 200 Connection Established\r\n\r\n")
	tc := tls.Server(c, &tls.Config{Certificates: []tls.Certificate{s.leaf}, NextProtos: []string{"http/1.1"}})
	if err := tc.Handshake(); err != nil {
		return
	}
	tbr := bufio.NewReader(tc)
	for {
		r, err := http.ReadRequest(tbr)
		if err != nil {
			return
		}
		host := r.Host
		if host == "" {
			host = req.Host
		}
		host = strings.TrimSuffix(host, ":443")
		if !s.serve(tc, host, r) {
			return
		}
	}
}

func writeResp(c net.Conn, status int, ctype string, body []byte, declaredLen int) {
	fmt.Fprintf(c, "HTTP/1.1 %d %s\r\nContent-Type: %s\r\nContent-Length: %d\r\nConnection: keep-alive\r\n\r\n", status, http.StatusText(status), ctype, declaredLen)
	_, _ = c.Write(body)
}

// serve answers one request; it returns false when the connection must be closed.
func (s *Server) serve(c net.Conn, host string, r *http.Request) bool {
	s.mu.Lock()
	cat := s.cat
	s.log = append(s.log, r.Method+" "+host+r.URL.Path)
	s.mu.Unlock()
	p := r.URL.Path
	fail := func(status int) bool {
		writeResp(c, status, "application/json", []byte(`{"message":"injected fault"}`), len(`{"message":"injected fault"}`))
		return true
	}
	sendAsset := func(a Asset) bool {
		isChecksum := a.Name == s.checksum
		switch {
		case isChecksum && cat.Fault == "checksum-404":
			return fail(404)
		case isChecksum && cat.Fault == "checksum-500":
			return fail(500)
		case !isChecksum && cat.Fault == "asset-404":
			return fail(404)
		case !isChecksum && cat.Fault == "asset-500":
			return fail(500)
		case !isChecksum && cat.Fault == "asset-truncated":
			half := a.Body[:len(a.Body)/2]
			writeResp(c, 200, "application/octet-stream", half, len(a.Body))
			return false // close: the body ends early
		}
		writeResp(c, 200, "application/octet-stream", a.Body, len(a.Body))
		return true
	}
	switch {
	case host == "api.github.com" && p == "/repos/coreruleset/crs-toolchain/releases":
		switch cat.Fault {
		case "list-500":
			return fail(500)
		case "list-404":
			return fail(404)
		case "list-garbage":
			writeResp(c, 200, "application/json", []byte("<html>not json"), len("<html>not json"))
			return true
		}
		if pg := r.URL.Query().Get("page"); pg != "" && pg != "1" {
			writeResp(c, 200, "application/json", []byte("[]"), 2)
			return true
		}
		type ja struct {
			ID                 int64  `json:"id"`
			Name               string `json:"name"`
			Size               int    `json:"size"`
			URL                string `json:"url"`
			BrowserDownloadURL string `json:"browser_download_url"`
			State              string `json:"state"`
			ContentType        string `json:"content_type"`
		}
		type jr struct {
			ID          int64  `json:"id"`
			TagName     string `json:"tag_name"`
			Name        string `json:"name"`
			Draft       bool   `json:"draft"`
			Prerelease  bool   `json:"prerelease"`
			HTMLURL     string `json:"html_url"`
			Body        string `json:"body"`
			PublishedAt string `json:"published_at"`
			Assets      []ja   `json:"assets"`
		}
		var out []jr
		for _, rel := range cat.Releases {
			j := jr{ID: rel.ID, TagName: rel.Tag, Name: rel.Tag, Draft: rel.Draft, Prerelease: rel.Prerelease,
				HTMLURL: "https://github.com/coreruleset/crs-toolchain/releases/tag/" + rel.Tag, PublishedAt: "2026-01-02T03:04:05Z", Assets: []ja{}}
			for _, a := range rel.Assets {
				j.Assets = append(j.Assets, ja{ID: a.ID, Name: a.Name, Size: len(a.Body), State: "uploaded", ContentType: "application/octet-stream",
					URL:                "https://api.github.com/repos/coreruleset/crs-toolchain/releases/assets/" + strconv.FormatInt(a.ID, 10),
					BrowserDownloadURL: "https://github.com/coreruleset/crs-toolchain/releases/download/" + rel.Tag + "/" + a.Name})
			}
			out = append(out, j)
		}
		if out == nil {
			out = []jr{}
		}
		b, _ := json.Marshal(out)
		writeResp(c, 200, "application/json", b, len(b))
		return true
	case host == "api.github.com" && strings.HasPrefix(p, "/repos/coreruleset/crs-toolchain/releases/assets/"):
		id, _ := strconv.ParseInt(strings.TrimPrefix(p, "/repos/coreruleset/crs-toolchain/releases/assets/"), 10, 64)
		for _, rel := range cat.Releases {
			for _, a := range rel.Assets {
				if a.ID == id {
					return sendAsset(a)
				}
			}
		}
		return fail(404)
	case host == "github.com" && strings.HasPrefix(p, "/coreruleset/crs-toolchain/releases/download/"):
		rest := strings.TrimPrefix(p, "/coreruleset/crs-toolchain/releases/download/")
		i := strings.Index(rest, "/")
		if i < 0 {
			return fail(404)
		}
		tag, name := rest[:i], rest[i+1:]
		for _, rel := range cat.Releases {
			if rel.Tag != tag {
				continue
			}
			for _, a := range rel.Assets {
				if a.Name == name {
					return sendAsset(a)
				}
			}
		}
		return fail(404)
	}
	return fail(404)
}
