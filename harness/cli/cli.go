// Package cli runs the crs-toolchain binary built from /repo as a black box and
// provides sandbox trees and recursive snapshots.
package cli

import (
	"bytes"
	"context"
	"crypto/sha256"
	"encoding/hex"
	"errors"
	"fmt"
	"io"
	"io/fs"
	"os"
	"os/exec"
	"path/filepath"
	"sort"
	"strings"
	"syscall"
	"time"
)

// Bin is the path of the crs-toolchain binary under test (built by vcheck).
func Bin() string {
	b := os.Getenv("VERIF_CLI")
	if b == "" {
		panic("VERIF_CLI not set: run through vcheck")
	}
	return b
}

// ScratchBase returns the directory under which sandboxes are created.
func ScratchBase() string {
	if d := os.Getenv("VERIF_SCRATCH"); d != "" {
		return d
	}
	if st, err := os.Stat("/dev/shm"); err == nil && st.IsDir() {
		return "/dev/shm"
	}
	return os.TempDir()
}

type Result struct {
	Stdout   string `json:"stdout"`
	Stderr   string `json:"stderr"`
	Exit     int    `json:"exit"`
	TimedOut bool   `json:"timed_out,omitempty"`
}

type Opt struct {
	Bin     string // default Bin()
	Dir     string // working directory (required)
	Home    string // HOME / TMPDIR; default Dir
	Stdin   string
	Env     []string // extra KEY=VALUE
	Timeout time.Duration
	// MaxFiles > 0: run with this soft limit on open file descriptors (ulimit -n), so that behaviour
	// that depends on descriptor exhaustion does not depend on the machine the check runs on
	MaxFiles int
	// MaxMemKB > 0: run with this limit on the address space (ulimit -v, in KiB): input that makes the
	// command allocate without bound ends in a runtime fault instead of exhausting the machine
	MaxMemKB int
	// StdinPieces > 1: stdin is a pipe into which the text is written in that many pieces with short pauses in
	// between (a script that prints its output bit by bit), instead of all at once
	StdinPieces int
}

// slowReader hands out the text in pieces, pausing before every piece but the first.
type slowReader struct {
	pieces []string
	next   int
}

func (r *slowReader) Read(p []byte) (int, error) {
	for r.next < len(r.pieces) && r.pieces[r.next] == "" {
		r.next++
	}
	if r.next >= len(r.pieces) {
		return 0, io.EOF
	}
	if r.next > 0 {
		time.Sleep(40 * time.Millisecond)
	}
	n := copy(p, r.pieces[r.next])
	r.pieces[r.next] = r.pieces[r.next][n:]
	if r.pieces[r.next] == "" {
		r.next++
	}
	return n, nil
}

// Run executes the binary with args. Exit is -1 if killed by a signal.
func Run(o Opt, args ...string) Result {
	bin := o.Bin
	if bin == "" {
		bin = Bin()
	}
	to := o.Timeout
	if to == 0 {
		to = 60 * time.Second
	}
	ctx, cancel := context.WithTimeout(context.Background(), to)
	defer cancel()
	cmd := exec.CommandContext(ctx, bin, args...)
	if o.MaxFiles > 0 || o.MaxMemKB > 0 {
		sh := ""
		if o.MaxFiles > 0 {
			sh += fmt.Sprintf("ulimit -n %d; ", o.MaxFiles)
		}
		if o.MaxMemKB > 0 {
			sh += fmt.Sprintf("ulimit -v %d; ", o.MaxMemKB)
		}
		sh += `exec "$0" "$@"`
		cmd = exec.CommandContext(ctx, "/bin/sh", append([]string{"-c", sh, bin}, args...)...)
	}
	cmd.Dir = o.Dir
	home := o.Home
	if home == "" {
		home = o.Dir
	}
	cmd.Env = append([]string{
		"PATH=/usr/bin:/bin",
		"HOME=" + home,
		"TMPDIR=" + home,
		"CI=true",
		"NO_COLOR=1",
		"LANG=C",
	}, o.Env...)
	cmd.Stdin = strings.NewReader(o.Stdin)
	if o.StdinPieces > 1 && len(o.Stdin) >= o.StdinPieces {
		// cut at line ends where possible
		var pieces []string
		rest := o.Stdin
		for i := o.StdinPieces; i > 1; i-- {
			cut := len(rest) / i
			if j := strings.IndexByte(rest[cut:], '\n'); j >= 0 {
				cut += j + 1
			}
			pieces = append(pieces, rest[:cut])
			rest = rest[cut:]
		}
		cmd.Stdin = &slowReader{pieces: append(pieces, rest)}
	}
	var so, se bytes.Buffer
	cmd.Stdout = &so
	cmd.Stderr = &se
	cmd.WaitDelay = 2 * time.Second
	err := cmd.Run()
	r := Result{Stdout: so.String(), Stderr: se.String()}
	if ctx.Err() == context.DeadlineExceeded {
		r.TimedOut = true
	}
	if err != nil {
		var ee *exec.ExitError
		if errors.As(err, &ee) {
			r.Exit = ee.ExitCode()
			if ws, ok := ee.Sys().(syscall.WaitStatus); ok && ws.Signaled() {
				r.Exit = -1
			}
		} else {
			r.Exit = -2
			r.Stderr += "\n[harness] exec error: " + err.Error()
		}
	}
	return r
}

// RuntimeFault reports whether stderr shows a Go runtime fault (not a deliberate diagnostic).
func RuntimeFault(stderr string) string {
	for _, m := range []string{"runtime error", "fatal error:", "SIGSEGV", "nil pointer", "index out of range", "slice bounds out of range", "stack overflow", "concurrent map"} {
		if strings.Contains(stderr, m) {
			return m
		}
	}
	return ""
}

// Tree is a set of files: slash-separated relative path -> content. A path ending in "/" is an
// (empty) directory.
type Tree map[string]string

// Write materialises the tree below root (created if needed). All files get mode 0644 and the
// fixed past mtime PastTime.
var PastTime = time.Date(2020, 1, 2, 3, 4, 5, 0, time.UTC)

// SymlinkPrefix marks a tree entry that is a symbolic link: the rest of the value is the link target.
const SymlinkPrefix = "\x00symlink:"

func (t Tree) Write(root string) error {
	if err := os.MkdirAll(root, 0o755); err != nil {
		return err
	}
	paths := make([]string, 0, len(t))
	for p := range t {
		paths = append(paths, p)
	}
	sort.Strings(paths)
	for _, p := range paths {
		full := filepath.Join(root, filepath.FromSlash(p))
		if strings.HasSuffix(p, "/") {
			if err := os.MkdirAll(full, 0o755); err != nil {
				return err
			}
			continue
		}
		if err := os.MkdirAll(filepath.Dir(full), 0o755); err != nil {
			return err
		}
		if target, ok := strings.CutPrefix(t[p], SymlinkPrefix); ok {
			if err := os.Symlink(target, full); err != nil {
				return err
			}
			continue
		}
		if err := os.WriteFile(full, []byte(t[p]), 0o644); err != nil {
			return err
		}
	}
	return nil
}

// Freeze sets the mtime of everything below root to PastTime (directories too).
func Freeze(root string) {
	_ = filepath.WalkDir(root, func(p string, d fs.DirEntry, err error) error {
		if err == nil {
			_ = os.Chtimes(p, PastTime, PastTime)
		}
		return nil
	})
}

type FileState struct {
	Size  int64  `json:"size"`
	Sha   string `json:"sha"`
	Mode  string `json:"mode"`
	Mtime int64  `json:"mtime"`
	Dir   bool   `json:"dir,omitempty"`
}

type Snapshot map[string]FileState

// Snap records every file and directory below root (relative slash paths).
func Snap(root string) Snapshot {
	s := Snapshot{}
	_ = filepath.WalkDir(root, func(p string, d fs.DirEntry, err error) error {
		if err != nil {
			return nil
		}
		rel, _ := filepath.Rel(root, p)
		rel = filepath.ToSlash(rel)
		if rel == "." {
			return nil
		}
		info, err := d.Info()
		if err != nil {
			return nil
		}
		st := FileState{Mode: info.Mode().String(), Mtime: info.ModTime().UnixNano(), Dir: d.IsDir()}
		if !d.IsDir() && info.Mode().IsRegular() {
			b, _ := os.ReadFile(p)
			h := sha256.Sum256(b)
			st.Sha = hex.EncodeToString(h[:])
			st.Size = int64(len(b))
		}
		s[rel] = st
		return nil
	})
	return s
}

// Diff lists paths whose state differs between a and b ("+path", "-path", "~path").
// Directory mtimes are ignored unless dirs is true (creating a file changes its parent's mtime).
func Diff(a, b Snapshot, dirMtime bool) []string {
	var out []string
	for p, sa := range a {
		sb, ok := b[p]
		if !ok {
			out = append(out, "-"+p)
			continue
		}
		if sa.Dir && sb.Dir && !dirMtime {
			sa.Mtime, sb.Mtime = 0, 0
		}
		if sa != sb {
			out = append(out, "~"+p)
		}
	}
	for p := range b {
		if _, ok := a[p]; !ok {
			out = append(out, "+"+p)
		}
	}
	sort.Strings(out)
	return out
}

// ContentDiff is Diff restricted to content (sha/size/existence), ignoring mode and mtime.
func ContentDiff(a, b Snapshot) []string {
	var out []string
	for p, sa := range a {
		sb, ok := b[p]
		if !ok {
			out = append(out, "-"+p)
			continue
		}
		if sa.Sha != sb.Sha || sa.Size != sb.Size || sa.Dir != sb.Dir {
			out = append(out, "~"+p)
		}
	}
	for p := range b {
		if _, ok := a[p]; !ok {
			out = append(out, "+"+p)
		}
	}
	sort.Strings(out)
	return out
}

// ReadTree reads every regular file below root into a Tree.
func ReadTree(root string) Tree {
	t := Tree{}
	_ = filepath.WalkDir(root, func(p string, d fs.DirEntry, err error) error {
		if err != nil || d.IsDir() {
			return nil
		}
		rel, _ := filepath.Rel(root, p)
		b, err := os.ReadFile(p)
		if err == nil {
			t[filepath.ToSlash(rel)] = string(b)
		}
		return nil
	})
	return t
}

// Sandbox creates a fresh directory under the scratch base.
type Sandbox struct{ Root string }

func NewSandbox(prefix string) *Sandbox {
	d, err := os.MkdirTemp(ScratchBase(), "vf-"+prefix+"-")
	if err != nil {
		panic(fmt.Sprintf("cannot create sandbox: %v", err))
	}
	return &Sandbox{Root: d}
}

func (s *Sandbox) Close() { _ = os.RemoveAll(s.Root) }

func (s *Sandbox) Path(rel string) string { return filepath.Join(s.Root, filepath.FromSlash(rel)) }

func (s *Sandbox) Read(rel string) string {
	b, _ := os.ReadFile(s.Path(rel))
	return string(b)
}

func (s *Sandbox) WriteFile(rel, content string) {
	p := s.Path(rel)
	_ = os.MkdirAll(filepath.Dir(p), 0o755)
	if err := os.WriteFile(p, []byte(content), 0o644); err != nil {
		panic(err)
	}
}
