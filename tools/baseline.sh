#!/bin/sh
# Runs /repo's pinned test suite with the hook guard OFF and prints the number of passing tests
# (BASELINE.json: 236 stable passes; the 6 self-update/updater tests need the network and always fail offline).
cd "${VERIF_REPO:-/repo}" || exit 2
unset GOFLAGS
export GOPROXY=off GOSUMDB=off GOTOOLCHAIN=local
go test -json -vet=off -count=1 -timeout 25m ./... > /tmp/baseline.$$.json 2>/dev/null
pass=$(grep -c '"Action":"pass","Package":"[^"]*","Test"' /tmp/baseline.$$.json)
fail=$(grep '"Action":"fail","Package":"[^"]*","Test"' /tmp/baseline.$$.json | grep -v -e TestRunSelfUpdateTestSuite -e TestRunUpdaterTestSuite | wc -l)
rm -f /tmp/baseline.$$.json
echo "baseline: pass=$pass unexpected_fail=$fail"
[ "$pass" -ge 236 ] && [ "$fail" -eq 0 ]
