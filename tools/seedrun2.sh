#!/bin/sh
# tools/seedrun2.sh <seed-id> [prop ...] — like seedrun.sh but without touching /repo or /verif: the change is
# applied in a throw-away git worktree of /repo's HEAD (/tmp/seedwt/<id>) and the quick check runs from a copy of
# /verif (/tmp/vcopy/<id>) with VERIF_REPO / VERIF_ROOT pointing there, so it can run next to other checks.
# SEED_REV pins the /repo revision, SEED_VERIF the copy of /verif to take the harness from (a frozen snapshot for a "first pass").
# (The protocol run that fills seeded/final-results.log uses seedrun.sh, i.e. /repo itself.)
id="$1"; shift
dir=/verif/seeded/$id
[ -f "$dir/patch.diff" ] || { echo "no such seed $id"; exit 2; }
props="$*"
[ -n "$props" ] || props=$(python3 -c "import json;print(' '.join(json.load(open('$dir/meta.json'))['properties']))")
wt=/tmp/seedwt/$id; vc=/tmp/vcopy/$id
rm -rf "$vc"; mkdir -p /tmp/seedwt /tmp/vcopy "$vc"
git -C /repo worktree remove --force "$wt" >/dev/null 2>&1
git -C /repo worktree add -q --detach "$wt" "${SEED_REV:-HEAD}" || { echo "$id: worktree failed"; exit 2; }
git -C "$wt" apply "$dir/patch.diff" || { echo "$id: patch does not apply"; git -C /repo worktree remove --force "$wt"; exit 2; }
rsync -a --exclude .git --exclude evidence --exclude replays --exclude seeded "${SEED_VERIF:-/verif}"/ "$vc"/
for p in $props; do
  out=$(cd "$vc/harness" && VERIF_REPO=$wt VERIF_ROOT=$vc GOFLAGS=-mod=mod GOPROXY=off GOSUMDB=off GOTOOLCHAIN=local go run ./cmd/vcheck -prop "$p" -tier quick ${SEED_CASES:+-cases $SEED_CASES} 2>&1); code=$?
  line=$(printf '%s\n' "$out" | grep -E '^(VIOLATION|ERROR)' | head -1)
  detail=$(printf '%s\n' "$out" | grep -A1 '^VIOLATION' | tail -1 | cut -c1-160)
  wall=$(printf '%s\n' "$out" | grep -o 'wall=[0-9.]*s' | head -1)
  ex=$(printf '%s\n' "$out" | grep -o 'shards_budget_exhausted=[0-9]*' | head -1)
  echo "$id $p exit=$code $wall $ex $line | $detail"
  mkdir -p /tmp/seedreplays; cp "$vc"/replays/$p-quick-seed*.json /tmp/seedreplays/$id-$p.json 2>/dev/null
done
git -C /repo worktree remove --force "$wt"; git -C /repo worktree prune
rm -rf "$vc"
