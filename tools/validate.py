#!/usr/bin/env python3-vt
import json, sys, glob, jsonschema
m = json.load(open('/verif/MANIFEST.json'))
jsonschema.validate(m, json.load(open('/root/.vp/MANIFEST.schema.json')))
print('manifest ok:', len(m['checks']), 'checks,', len(m.get('not_applicable', [])), 'not applicable')
es = json.load(open('/root/.vp/EVIDENCE.schema.json'))
for f in sorted(glob.glob('/verif/evidence/*.json')):
    try:
        jsonschema.validate(json.load(open(f)), es)
        print('ok', f)
    except Exception as e:
        print('INVALID', f, str(e)[:300])
ids = [json.loads(l)['id'] for l in open('/verif/properties.jsonl')]
claimed = {c['property_id'] for c in m['checks']}
na = {n['property_id'] for n in m.get('not_applicable', [])}
print('unaccounted:', [i for i in ids if i not in claimed and i not in na])
