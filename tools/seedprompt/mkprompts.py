#!/usr/bin/env python3
"""mkprompts.py <base dir, e.g. /tmp/wt5> : write <base>/Cxx.prompt.txt for a round of seeded changes.
Each prompt holds only the property text (from properties.jsonl), the task template and one-line
descriptions of the changes already seeded for that property (from the agents' own notes)."""
import json, os, sys, glob
base = sys.argv[1]
here = os.path.dirname(os.path.abspath(__file__))
t = open(here + '/PROMPT.tmpl').read().replace('@BASE@', base)
hint = open(here + '/C20.hint.txt').read()
for l in open('/verif/properties.jsonl'):
    p = json.loads(l)
    pid = p['id']
    prop = "%s — %s\n\nSTATEMENT: %s\n\nQUANTIFIED OVER: %s\n\nWHY EXISTING TESTS CANNOT SETTLE IT: %s\n\nCODE ANCHORS: files %s; mechanisms: %s; observed at: %s\n" % (
        pid, p['title'], p['statement'], p['quantifier']['text'], p['why_tests_cant'], ', '.join(p['anchors']['files']),
        '; '.join(m['name'] + ' (' + m['where'] + ')' for m in p['anchors']['mechanism']), '; '.join(p['anchors'].get('observe_at', [])))
    done = []
    for d in sorted(glob.glob('/verif/seeded/%s-*' % pid), key=lambda x: int(x.rsplit('-', 1)[1])):
        n = d + '/notes.md'
        if os.path.exists(n):
            txt = open(n).read().strip().split('\n')
            head = ' '.join(x.strip('# ').strip() for x in txt[:4] if x.strip())[:260]
            files = json.load(open(d + '/meta.json'))['files_touched']
            done.append('- (%s) %s' % (', '.join(files), head))
    body = t.replace('@ID@', pid).replace('@PROPERTY@', prop)
    body += '''

ADDITIONAL REQUIREMENTS FOR THIS ROUND: other engineers have already seeded the %d changes listed below for this property. Yours must be DIFFERENT from all of them in root cause and should break an ASPECT of the property, an input class, a command variant (single target, --all, --check, -o github, -l levels, -d / -f variants, stdin vs file, repeated invocations, unusual but legal file and directory names) or a code path that none of them touches. Read the whole statement and "QUANTIFIED OVER" again and look for the corners nobody has used yet; also consider the other packages (cmd/, regex/parser, regex/processors, regex/operators, configuration/, context/, util/, chore/, internal/updater, utils/, logger/) and cross-cutting code (flag parsing in cmd/root.go and cmd/flag_types.go, context construction, file writing modes, error plumbing).
''' % len(done) + '\n'.join(done) + '''
Favour subtle defects: an interaction between two features that are each handled correctly alone; a boundary value or an unusual-but-legal spelling; state that survives from one file / invocation / loop iteration to the next; an error path that reports success or a success path that silently skips part of the work; order dependence (map iteration, directory order, argument order). Avoid anything that ordinary input would expose on every run. If you truly cannot find two new root causes, deliver one and say so.

SEPARATELY (do not seed this): if, while reading the code, you notice that the UNCHANGED tree already violates the property for some input or situation, say so at the end of your final message with a concrete reproduction (the files, the command line, what is observed and what the property demands). Only report what you have actually reproduced with the built CLI.
'''
    if pid == 'C20':
        body += hint
    open('%s/%s.prompt.txt' % (base, pid), 'w').write(body)
print('ok')
