#!/bin/sh
# tools/seedimport.sh C08 1 : verify a sub-agent's seeded change in its scratch worktree and keep it under /verif/seeded/
# usage: seedimport.sh C08 1 [worktree-base (default /tmp/wt)] [number to store it under (default: same)]
p="$1"; k="$2"; base="${3:-/tmp/wt}"; dk="${4:-$k}"; wt=$base/$p; sd=$wt/_seed/$k; dst=/verif/seeded/$p-$dk
export GOPROXY=off GOSUMDB=off GOTOOLCHAIN=local; unset GOFLAGS
[ -f "$sd/patch.diff" ] || { echo "$p-$k: no patch"; exit 2; }
cd "$wt" || exit 2
git checkout -q -- . 2>/dev/null
git apply "$sd/patch.diff" || { echo "$p-$k: patch does not apply"; exit 1; }
go build ./... || { echo "$p-$k: does not build"; git checkout -q -- .; exit 1; }
bl=$(VERIF_REPO=$wt /verif/tools/baseline.sh); bcode=$?
sh "$sd/demo.sh" >"$sd/demo.with.log" 2>&1; dwith=$?
git checkout -q -- .
# remove test files a demo may have copied in
git clean -qfd -e _seed >/dev/null 2>&1
sh "$sd/demo.sh" >"$sd/demo.without.log" 2>&1; dwithout=$?
git checkout -q -- .; git clean -qfd -e _seed >/dev/null 2>&1
echo "$p-$dk: $bl (code $bcode) demo_with_change=$dwith demo_without=$dwithout"
if [ $bcode -eq 0 ] && [ $dwith -ne 0 ] && [ $dwithout -eq 0 ]; then
  mkdir -p "$dst"
  cp -r "$sd"/. "$dst"/ 2>/dev/null
  python3 - "$p" "$dk" "$dst" "$bl" "$dwith" "$dwithout" <<'PY'
import json,sys,re
p,k,dst,base,dw,dwo=sys.argv[1:]
notes=open(dst+'/notes.md').read() if __import__('os').path.exists(dst+'/notes.md') else ''
files=sorted(set(re.findall(r'^\+\+\+ b/(\S+)',open(dst+'/patch.diff').read(),re.M)))
json.dump({"properties":[p],"origin":"fresh sub-agent given only the property text and a scratch worktree","files_touched":files,
 "needs_to_manifest":"see notes.md","verified":{"applies":True,"builds":True,"baseline":base,"demo_exit_with_change":int(dw),"demo_exit_without_change":int(dwo),
 "how":"tools/seedimport.sh: git apply in the scratch worktree, go build ./..., tools/baseline.sh (236 tests), sh demo.sh with and without the change"}},open(dst+'/meta.json','w'),indent=1)
PY
  echo "$p-$dk: KEPT in $dst"
else
  echo "$p-$dk: REJECTED (from $sd)"
fi
