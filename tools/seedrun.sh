#!/bin/sh
# tools/seedrun.sh <seed-id> [prop ...]  — apply /verif/seeded/<seed-id>/patch.diff to /repo, run the quick
# check of the given properties (default: the property named in meta.json), and undo the change.
# Prints one line per property: <seed> <prop> exit=<code> <first VIOLATION/ERROR line>
id="$1"; shift
dir=/verif/seeded/$id
[ -f "$dir/patch.diff" ] || { echo "no such seed $id"; exit 2; }
if [ -n "$(git -C /repo status --porcelain)" ]; then echo "/repo is not clean"; exit 2; fi
props="$*"
[ -n "$props" ] || props=$(python3 -c "import json;print(' '.join(json.load(open('$dir/meta.json'))['properties']))")
git -C /repo apply "$dir/patch.diff" || { echo "$id: patch does not apply"; exit 2; }
for p in $props; do
  out=$(/verif/tools/vc -prop "$p" -tier quick ${SEED_CASES:+-cases $SEED_CASES} 2>&1); code=$?
  line=$(printf '%s\n' "$out" | grep -E '^(VIOLATION|ERROR)' | head -1)
  detail=$(printf '%s\n' "$out" | grep -A1 '^VIOLATION' | tail -1 | cut -c1-160)
  wall=$(printf '%s\n' "$out" | grep -o 'wall=[0-9.]*s' | head -1)
  echo "$id $p exit=$code $wall $line | $detail"
done
git -C /repo checkout -- .
