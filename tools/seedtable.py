#!/usr/bin/env python3
# Builds /verif/seeded/RESULTS.md from the meta/notes of every seeded change and the result logs.
import json, os, re, glob
first = {}   # seed -> caught on the first pass (before any strengthening triggered by that round)
r1_missed = {"C01-2","C03-2","C06-2","C08-1","C08-2","C10-2","C12-2","C16-2","C17-1","C17-2","C20-1"}
for d in sorted(glob.glob('/verif/seeded/C??-*'), key=lambda d: (os.path.basename(d).split('-')[0], int(os.path.basename(d).split('-')[1]))):
    s = os.path.basename(d)
    k = int(s.split('-')[1])
    if k <= 2:
        first[s] = s not in r1_missed
for name in ('round2-first-pass.log', 'round3-first-pass.log', 'round4-first-pass.log', 'round5-first-pass.log', 'round6-first-pass.log', 'round7-first-pass.log'):
    p = '/verif/seeded/' + name
    if os.path.exists(p):
        for l in open(p):
            m = re.match(r'(C\d\d-\d+) (C\d\d) exit=(\d)', l)
            if m:
                first[m.group(1)] = m.group(3) == '1'
final = {}
p = '/verif/seeded/final-results.log'
if os.path.exists(p):
    for l in open(p):
        m = re.match(r'(C\d\d-\d+) (C\d\d) exit=(\d)[^|]*\|?\s*(.*)', l)
        if m:
            final.setdefault(m.group(1), []).append((m.group(2), m.group(3) == '1', (m.group(4) or '').strip()))
rows = []
for d in sorted(glob.glob('/verif/seeded/C??-*'), key=lambda d: (os.path.basename(d).split('-')[0], int(os.path.basename(d).split('-')[1]))):
    s = os.path.basename(d)
    meta = json.load(open(d + '/meta.json'))
    notes = open(d + '/notes.md').read() if os.path.exists(d + '/notes.md') else ''
    title = ''
    for l in notes.split('\n'):
        l = l.strip('# ').strip()
        if l and not l.lower().startswith(('notes', 'seed')) or (l.lower().startswith('seed') and len(l) > 12):
            title = l
            break
    title = re.sub(r'^(Seed|Change)\s*\d+\s*[—:-]+\s*', '', title)[:150]
    f = first.get(s)
    fin = final.get(s, [])
    caught_by = ', '.join(p for p, ok, _ in fin if ok) or '—'
    if meta.get('retired'):
        caught_by = 'retired (does not apply to the repaired tree)'
    how = next((h for _, ok, h in fin if ok), '')
    rows.append((s, ', '.join(meta['files_touched']), title, 'yes' if f else ('no' if f is not None else '?'), caught_by, how[:110]))
with open('/verif/seeded/RESULTS.md', 'w') as o:
    o.write('# Seeded changes and the checks that catch them\n\n')
    o.write('Every change was produced by a fresh sub-agent that saw only the property text and a scratch worktree, '
            'and was verified by `tools/seedimport.sh` (applies, builds, the 236 pinned tests still pass, its demonstration fails with and passes without the change). '
            '"first pass" = caught by the quick check of its property as the checks stood when the round was first run; '
            '"caught by" = quick checks (VERIF_SEED=1) that report a VIOLATION with the final harness (`tools/seedrun.sh`).\n\n')
    n = len(rows); fp = sum(1 for r in rows if r[3] == 'yes'); ret = sum(1 for r in rows if r[4].startswith('retired')); fc = sum(1 for r in rows if r[4] != '—' and not r[4].startswith('retired'))
    o.write(f'Totals: {n} changes; first pass {fp}/{n}; retired {ret} (their mechanism was removed by a later fix, see meta.json); final harness {fc}/{n - ret} of the changes that apply to the final tree.\n\n')
    o.write('| seed | files | change | first pass | caught by | reported as |\n|---|---|---|---|---|---|\n')
    for r in rows:
        o.write('| ' + ' | '.join(x.replace('|', '\\|') for x in r) + ' |\n')
print(open('/verif/seeded/RESULTS.md').read()[:1500])
