#!/usr/bin/env python3
# Regenerates /verif/MANIFEST.json from the table below (one entry per property whose check exists).
import json
ENV = "GOFLAGS=-mod=mod GOPROXY=off GOSUMDB=off GOTOOLCHAIN=local"
RUN = f"cd /verif/harness && {ENV} go run ./cmd/vcheck"
TRUST = "trusts the Go toolchain and regexp/syntax, rapid v1.3.0, the OS file system, and the harness's own reference model (a direct transcription of the property statement, self-tested on the documented examples)"
checks = {
 "C01": ("generated-program search (rapid) with an exact language-equivalence oracle per program: inside each generated program all subject strings are covered symbolically (product determinisation of both regexes); over programs the search is random with shrinking",
         "§3 C01, §2.4", "property-based testing (rapid) with exact regex-equivalence oracle against a plain-reading reference evaluator"),
}
import os, sys
extra = os.path.join(os.path.dirname(__file__), "checks.json")
if os.path.exists(extra):
    for k, v in json.load(open(extra)).items():
        checks[k] = tuple(v)
ids = [json.loads(l)["id"] for l in open("/verif/properties.jsonl")]
m = {
 "version": 1,
 "setup_cmd": f"cd /verif/harness && {ENV} go build -o /dev/null ./cmd/vcheck && {ENV} go vet ./props",
 "hooks": {"guard": "verif", "enable": "go build -tags verif . (vcheck passes the tag on every build; no hook exists at present: the CLI is driven as a black box)",
           "baseline_off_cmd": "/verif/tools/baseline.sh", "source_commits": [], "add_only": True},
 "engines": [{"name": "vcheck", "path": "/verif/harness/cmd/vcheck", "serves_properties": sorted(checks),
              "kind_free_text": "Go driver: builds the CLI from /repo's working tree, runs rapid v1.3.0 property tests (package /verif/harness/props) in up to 16 shards seeded from VERIF_SEED, merges evidence, prints VIOLATION / KNOWN-FINDING lines"}],
 "checks": [], "not_applicable": [],
 "notes": "exit 0 = held on everything explored; exit 1 + VIOLATION line = violation with replay file; exit 2 + ERROR line = infrastructure trouble (never a verdict). Known findings: /verif/known_findings.json (never written at run time): 45 fixed (one unguarded `fix:` commit each in /repo, `git -C /repo log --grep ^fix:`; the pinned 236 tests pass after every one), 7 open (D4, D17, D20-D23, D30: a pinned test expects the defective output, or third-party code) which the checks report as KNOWN-FINDING lines and exclude by class predicates evaluated on the failing case. Seeded changes the checks were measured against: /verif/seeded (RESULTS.md), protocol and results in DESIGN.md section 10.",
}
for i in ids:
    if i in checks:
        text, ref, tech = checks[i]
        m["checks"].append({
            "property_id": i,
            "quick_cmd": f"{RUN} -prop {i} -tier quick",
            "thorough_cmd": f"{RUN} -prop {i} -tier thorough",
            "evidence_file": f"/verif/evidence/{i}.json",
            "replay_cmd_template": f"{RUN} -prop {i} -replay {{path}}",
            "engine": "vcheck",
            "level_claimed": {"category": "exploration", "text": text, "design_ref": "DESIGN.md " + ref},
            "level_note": TRUST,
            "technique": tech,
        })
    else:
        m["not_applicable"].append({"property_id": i, "reason": "check not built yet (work in progress; the technique applies, see DESIGN.md §3)"})
json.dump(m, open("/verif/MANIFEST.json", "w"), indent=1)
print("claimed", sorted(checks))
